#!/bin/sh
# Pre-build every harness configuration offline from /repo's working tree (checks rebuild
# incrementally anyway; this only warms the target directories).
set -u
cd "$(dirname "$0")"
export CARGO_NET_OFFLINE=true
python3 - <<'PY'
import sys, os
sys.path.insert(0, os.getcwd())
import importlib.util, subprocess
spec = importlib.util.spec_from_loader("check", loader=None)
src = open("check").read()
mod = type(sys)("check")
mod.__file__ = os.path.abspath("check")
exec(compile(src.replace('if __name__ == "__main__":', 'if False:'), "check", "exec"), mod.__dict__)
import concurrent.futures as cf
cfgs = [c for c in mod.CFG if mod.CFG[c].get("runner") != "miri"]
bad = 0
with cf.ThreadPoolExecutor(max_workers=4) as ex:
    for c, (ok, out) in zip(cfgs, ex.map(mod.build, cfgs)):
        if not ok:
            bad += 1
            print("setup: build failed for", c, file=sys.stderr)
            print(out[-2000:], file=sys.stderr)
# Miri sysroot + harness under Miri (smoke)
r = subprocess.run(["cargo", "+nightly", "miri", "setup"], cwd="harness", stdout=subprocess.PIPE, stderr=subprocess.STDOUT, text=True)
if r.returncode != 0:
    print("setup: cargo miri setup failed:", r.stdout[-1500:], file=sys.stderr)
sys.exit(0)
PY
exit 0
