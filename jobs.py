"""Build configurations and per-property job tables for ./check."""

ASAN_FLAGS = "-Zsanitizer=address -Cforce-frame-pointers=yes"
LSAN_FLAGS = "-Zsanitizer=leak -Cforce-frame-pointers=yes"
TRIPLE = "x86_64-unknown-linux-gnu"

CFG = {
    # crate under test built with its default features (std), stable toolchain
    "dbg": {"features": "cb-std"},
    "rel": {"features": "cb-std", "profile": "release"},
    # alloc only / no default features (crate is no_std there; the harness still uses std)
    "alloc": {"features": "cb-alloc"},
    "nostd": {"features": "cb-nostd"},
    "alloc-rel": {"features": "cb-alloc", "profile": "release"},
    "nostd-rel": {"features": "cb-nostd", "profile": "release"},
    # same nightly for both sides of the C18 differential
    "ndbg": {"features": "cb-std", "toolchain": "nightly"},
    "nunst": {"features": "cb-std,cb-unstable", "toolchain": "nightly"},
    "nrel": {"features": "cb-std", "toolchain": "nightly", "profile": "release"},
    "nunst-rel": {"features": "cb-std,cb-unstable", "toolchain": "nightly", "profile": "release"},
    # embedded-io configurations
    "eio": {"features": "cb-std,eio"},
    "eioa": {"features": "cb-std,eioa"},
    "eioboth": {"features": "cb-std,eio,eioa"},
    # sanitizers
    "asan": {"features": "cb-std,heaptok", "toolchain": "nightly", "rustflags": ASAN_FLAGS, "target": TRIPLE, "runner": "asan"},
    "lsan": {"features": "cb-std,heaptok", "toolchain": "nightly", "rustflags": LSAN_FLAGS, "target": TRIPLE, "runner": "lsan"},
    "relheap-mc": {"features": "cb-std,heaptok", "profile": "release", "runner": "memcheck", "leak_check": "full", "undef": "yes"},
    "rel-mc": {"features": "cb-std", "profile": "release", "runner": "memcheck", "leak_check": "no", "undef": "yes"},
    "miri": {"features": "cb-std,heaptok", "runner": "miri", "miriflags": "-Zmiri-disable-isolation"},
    "miri-tb": {"features": "cb-std,heaptok", "runner": "miri", "miriflags": "-Zmiri-disable-isolation -Zmiri-tree-borrows"},
    "miri-noleak": {"features": "cb-std,heaptok", "runner": "miri", "miriflags": "-Zmiri-disable-isolation -Zmiri-ignore-leaks"},
    "miri-plain": {"features": "cb-std", "runner": "miri", "miriflags": "-Zmiri-disable-isolation"},
}


def ns(lo, hi):
    return ",".join(str(i) for i in range(lo, hi + 1))


def J(cfg, *args, shards=16, **kw):
    d = {"cfg": cfg, "args": [str(a) for a in args], "shards": shards}
    d.update(kw)
    return d


RANDOM_NS = "0,1,2,3,5,8,16,61,1000"
# threshold- and power-of-two-dependent paths: only in the random histories (instantiating the sweeps
# for these would cost minutes of build time)
RANDOM_NS_BIG = "31,32,33,64,127,128,255,256,257"


def sweep_jobs(tier, wide=True, rel=True):
    top = 5 if tier == "quick" else 7
    j = [J("dbg", "sweep", "--n", ns(0, top), *(["--thorough"] if tier == "thorough" else []))]
    if rel:
        j.append(J("rel", "sweep", "--n", ns(0, top + 1), *(["--thorough"] if tier == "thorough" else []), count_distinct=False))
    if wide:
        j.append(J("dbg", "sweep", "--n", ns(0, 3 if tier == "quick" else 5), "--elem", "wide", shards=8))
        j.append(J("rel", "sweep", "--n", ns(0, 4 if tier == "quick" else 6), "--elem", "wide", shards=8, count_distinct=False))
        # element type without drop glue (mem::needs_drop == false): "plain data" fast paths
        j.append(J("dbg", "sweep", "--n", ns(0, 4 if tier == "quick" else 6), "--elem", "nodrop"))
        j.append(J("rel", "sweep", "--n", ns(0, 4 if tier == "quick" else 6), "--elem", "nodrop", count_distinct=False))
    return j


def random_jobs(tier, cfgs=("dbg", "rel")):
    ops = 6000 if tier == "quick" else 150000
    out = []
    for c in cfgs:
        out.append(J(c, "random", "--n", RANDOM_NS, "--ops", ops, "--emit-distinct", "1", count_distinct=(c == cfgs[0])))
    out.append(J(cfgs[-1], "random", "--n", RANDOM_NS_BIG, "--ops", ops // 2, "--emit-distinct", "1"))
    out.append(J("dbg", "random", "--n", "0,1,2,5,16,61", "--ops", ops // 2, "--elem", "wide", "--emit-distinct", "1", shards=8))
    out.append(J("rel", "random", "--n", "0,1,3,8,16,61", "--ops", ops // 2, "--elem", "nodrop", "--emit-distinct", "1", shards=8))
    return out


def fault_jobs(tier, kinds):
    top = 5 if tier == "quick" else 7
    th = ["--thorough"] if tier == "thorough" else []
    j = [
        J("dbg", "faults", "--n", ns(0, top), "--kinds", kinds, *th),
        J("rel", "faults", "--n", ns(0, top), "--kinds", kinds, *th, count_distinct=False),
    ]
    if kinds == "user":
        j.append(J("rel", "faults", "--n", ns(0, top - 1), "--kinds", kinds, "--elem", "nodrop", *th, count_distinct=False))
    return j


COMMON_ASSUME = [
    "the harness (instrumented element type, ledger, sequential model written from the documentation) is itself correct; it was validated against seeded breaks, see DESIGN.md",
    "executions are deterministic functions of (build configuration, case descriptor): the crate has no threads, clock or I/O",
    "what was not executed is not covered: capacities, layouts and argument values outside the enumerated/random sets listed under coverage.jobs",
]

PROPS = {}

PROPS["C01"] = {
    "level": "exploration",
    "rule": "sweep: every (capacity N, element type, front slot, length) x every API operation x boundary arguments, each reached by up to 7 construction routes; a case is one operation executed on the real buffer and compared (return value by identity, contents by identity and value through every view) with the documented deque model, followed by 6 follow-up operations. distinct_nontrivial = distinct (N, element type, front slot, length, operation with exact arguments) whose operation mutates or panics (hash set sizes summed over shards that partition the key space), plus distinct (N, measured layout, operation, argument class) seen in the seeded random histories.",
    "exhaustive": False,
    "exhaustive_scope": "the single-operation sweep is complete for the capacities and boundary-argument sets listed in the jobs; random histories are samples",
    "jobs": lambda tier: sweep_jobs(tier) + random_jobs(tier),
    "require_counters": ["ops_executed", "views_compared", "conservation_checks"],
    "assumptions": COMMON_ASSUME,
}

PROPS["C02"] = dict(PROPS["C01"])
PROPS["C02"] = {
    **PROPS["C01"],
    "rule": "same executions as C01, judged only on push_back/push_front/try_push_back/try_push_front: returned element must be that very element (identity from the token id), Err exactly when is_full() held before the call, buffer unchanged on Err, element at that end on Ok; the ledger shows whether the argument was silently destroyed. distinct_nontrivial counts as for C01.",
}

PROPS["C03"] = {
    **PROPS["C01"],
    "rule": "same sweep and random histories as C01 judged by the ledger: DoubleDrop / StaleTouched events, and after every call live(ledger) == contents(model) + held(harness); at teardown nothing created during the case may be alive. distinct_nontrivial counts as for C01.",
    "require_counters": ["ops_executed", "conservation_checks", "teardowns"],
}

PROPS["C07"] = {
    **PROPS["C01"],
    "rule": "after every operation of the C01 sweep and random histories all read views (len/is_empty/is_full, get, nth_front, nth_back, index, front, back, iter, iter.rev, range over all sub-ranges, as_slices concatenation, to_vec, Debug) and their mutable twins are compared by identity, value and address for positions 0..=len+1 and usize::MAX; write-through probes edit one position through each mutable view and compare the whole buffer with the model. distinct_nontrivial counts as for C01.",
    "require_counters": ["views_compared", "mut_views_compared"],
}

PROPS["C11"] = {
    **PROPS["C01"],
    "rule": "every call of the C01 sweep (N = 0 first-class, indices 0..=N+1 and usize::MAX-1/usize::MAX, all 9 bound-kind pairs over boundary values) runs under catch_unwind; panicked must equal the model's must_panic, a documented panic must leave contents and addresses unchanged. distinct_nontrivial counts as for C01; counter documented_panics is the number of expected panics observed.",
    "require_counters": ["ops_executed", "documented_panics"],
}

PROPS["C20"] = {
    **PROPS["C01"],
    "rule": "relocation monitor: addresses of all elements by identity before and after each call of the C01 sweep and random histories (N = 61 and 1000 included); surviving element whose address changed = relocation; bounds 2 / len-i / len-j / 0 as stated by the property. distinct_nontrivial counts as for C01; counter relocation_bounds_checked is the number of judged calls.",
    "require_counters": ["relocation_bounds_checked"],
}

PROPS["C17"] = {
    "level": "exploration",
    "rule": "counting global allocator: allocator events attributed to the crate (inside a crate call and outside harness callbacks) must be zero for every non-panicking call except to_vec (boxed is exercised by the state builder); same sweep and random histories as C01 in three configurations of the crate (std, alloc only, no default features). Second observable: cargo build of the crate alone with --no-default-features and with --no-default-features --features alloc. distinct_nontrivial counts as for C01 in the std configuration.",
    "jobs": lambda tier: (
        sweep_jobs(tier, wide=False, rel=False)
        + [J("alloc", "sweep", "--n", ns(0, 4 if tier == "quick" else 6), count_distinct=False),
           J("nostd", "sweep", "--n", ns(0, 4 if tier == "quick" else 6), count_distinct=False),
           J("rel", "sweep", "--n", ns(0, 4), count_distinct=False)]
        + random_jobs(tier, cfgs=("dbg", "alloc", "nostd"))
    ),
    "crate_builds": [("no-default-features", ["--no-default-features"]), ("alloc-only", ["--no-default-features", "--features", "alloc"])],
    "link_probe": True,
    "require_counters": ["alloc_scopes_checked"],
    "assumptions": COMMON_ASSUME + ["allocations made by element callbacks and by the harness are excluded by a thread-local suspend counter"],
}

FAULT_RULE = (
    "fault enumeration: for every (N, front slot, length, route) x operation that runs {kind} inside the call, a dry run counts the callback invocations U, "
    "then U re-executions make the k-th invocation panic once (k = 1..=U); after the caught panic: validity predicate on the buffer (live, distinct, drawn from "
    "the original contents / arguments / clones), all views cross-checked, 8 fixed + 8 seeded follow-up operations under the re-synchronised model, teardown with "
    "ledger reconciliation ({leak}). distinct_nontrivial = distinct (N, element type, front slot, length, action, kind, k) whose fault actually fired."
)

PROPS["C05"] = {
    "level": "fault_enumeration",
    "rule": FAULT_RULE.format(kind="an element destructor", leak="leaks allowed, a second destructor run on any element is not"),
    "jobs": lambda tier: fault_jobs(tier, "drop"),
    "require_counters": ["faults_fired", "dry_runs"],
    "assumptions": COMMON_ASSUME + ["one fault per execution (a second panic during unwinding would abort by language rules)"],
}

PROPS["C06"] = {
    "level": "fault_enumeration",
    "rule": FAULT_RULE.format(kind="user code (T::clone, fill closure, source iterator, eq/cmp/hash/fmt of elements)", leak="nothing created during the case may be alive after the buffer is dropped"),
    "jobs": lambda tier: fault_jobs(tier, "user"),
    "require_counters": ["faults_fired", "dry_runs"],
    "assumptions": COMMON_ASSUME + ["one fault per execution"],
}


def th(tier):
    return ["--thorough"] if tier == "thorough" else []


PROPS["C04"] = {
    "level": "exploration",
    "rule": "non-interference: for every (N, length, operation with exact arguments) the case is executed under every variant (front slot x construction route x filling of the unoccupied slots: natural stale bytes, 0x00, 0xFF, 0x5A, byte-copy of a destroyed element, byte-copy of a live element held by the harness; boxed routes additionally start from painted fresh memory) and the canonical traces (returns, contents, ledger events, panics; ids normalised to position/argument/clone-of labels) must be identical; GarbageTouched/StaleTouched/DoubleDrop on an injected copy refute the property directly. distinct_nontrivial = distinct (N, element type, length, operation) whose variants were all compared; counters traces_compared and garbage_bytes_poked are measured. Sanitizer jobs (Miri, memcheck on the release binary) run the same cases with painting and poking off. In addition every ledger event (an operation touching, cloning, comparing or destroying the bytes of an element that is no longer alive in the buffer) seen in the non-interference runs, in random histories with garbage repainting, and in the fault-enumeration and faulted random workloads (--c04) is a violation by the letter of the property.",
    "jobs": lambda tier: [
        J("dbg", "nonint", "--n", ns(0, 3 if tier == "quick" else 5), *th(tier)),
        J("rel", "nonint", "--n", ns(0, 4 if tier == "quick" else 6), *th(tier), count_distinct=False),
        J("rel", "nonint", "--n", ns(0, 3 if tier == "quick" else 5), "--elem", "wide", shards=8, count_distinct=False),
        J("dbg", "nonint", "--n", ns(0, 2 if tier == "quick" else 4), "--elem", "wide", shards=8),
        J("rel", "nonint", "--n", ns(0, 3 if tier == "quick" else 5), "--elem", "nodrop", count_distinct=False),
    ],
    "require_counters": ["traces_compared", "garbage_bytes_poked"],
    "assumptions": COMMON_ASSUME + ["a stray read whose value can never influence any result is only visible to Miri/memcheck (typed read of uninitialised memory)"],
}

PROPS["C08"] = {
    "level": "exploration",
    "rule": "every (N, front slot, length, route) x every range a..b in every RangeBounds form x every script over {next, next_back} of length <= selected+2, for iter / iter_mut / range / range_mut (items compared by identity and address; len and size_hint at every step; a clone taken at every step must yield exactly the remaining items; all &mut yielded are held and written together) and the owning iterator (all scripts, clone at some step, Debug); Iter::default/IterMut::default empty. distinct_nontrivial = distinct (state, range form, script, iterator kind).",
    "exhaustive": True,
    "exhaustive_scope": "complete for the capacities listed in the jobs, scripts up to selected length + 2",
    "jobs": lambda tier: [
        J("dbg", "iters", "--n", ns(0, 5 if tier == "quick" else 7)),
        J("rel", "iters", "--n", ns(0, 6 if tier == "quick" else 8), count_distinct=False),
        # element without drop glue: iterator fast paths gated on mem::needs_drop
        J("dbg", "iters", "--n", ns(0, 4 if tier == "quick" else 6), "--elem", "nodrop", count_distinct=False),
        J("rel", "iters", "--n", ns(0, 4 if tier == "quick" else 6), "--elem", "nodrop", count_distinct=False),
    ],
    "require_counters": ["iter_steps"],
    "assumptions": COMMON_ASSUME,
}

DRAIN_RULE = "complete drain space: every (N, front slot, length, route) x every a <= b <= len in every RangeBounds form x every script over {next, next_back} of length 0..=b-a+1; yields by identity, len/size_hint at every step, Debug of the live drain; "

PROPS["C09"] = {
    "level": "exploration",
    "rule": DRAIN_RULE + "the drain is dropped after the script: contents must be before[..a] ++ before[b..] by identity, every unyielded drained element destroyed exactly once (ledger), 8 follow-up operations under the model, teardown. distinct_nontrivial = distinct (state, range form, script).",
    "exhaustive": True,
    "exhaustive_scope": "complete for the capacities listed in the jobs (the O(N^3) hole/tail/array-end configuration space)",
    "jobs": lambda tier: [
        J("dbg", "drain", "--n", ns(0, 5 if tier == "quick" else 8), *(["--maxscript", "6"] if tier == "thorough" else [])),
        J("rel", "drain", "--n", ns(0, 5 if tier == "quick" else 8), *(["--maxscript", "6"] if tier == "thorough" else []), count_distinct=False),
        J("rel", "drain", "--n", ns(0, 4 if tier == "quick" else 6), "--elem", "nodrop"),
    ],
    "require_counters": ["ops_executed", "conservation_checks"],
    "assumptions": COMMON_ASSUME,
}

PROPS["C10"] = {
    "level": "fault_enumeration",
    "rule": DRAIN_RULE + "the fault is mem::forget(drain) after the script (scripts of every length = forget after every prefix): afterwards the buffer must hold live, distinct elements drawn from the original contents and disjoint from the ones handed out; 8 fixed + 8 seeded follow-up operations under the re-synchronised model; no DoubleDrop up to and including the final drop. distinct_nontrivial = distinct (state, range form, script) leaked.",
    "exhaustive": True,
    "exhaustive_scope": "complete for the capacities listed in the jobs",
    "jobs": lambda tier: [
        J("dbg", "drain", "--forget", "1", "--n", ns(0, 5 if tier == "quick" else 7), *(["--maxscript", "6"] if tier == "thorough" else [])),
        J("rel", "drain", "--forget", "1", "--n", ns(0, 5 if tier == "quick" else 7), *(["--maxscript", "6"] if tier == "thorough" else []), count_distinct=False),
        J("dbg", "drain", "--forget", "1", "--n", ns(0, 4 if tier == "quick" else 6), "--elem", "nodrop"),
        J("rel", "drain", "--forget", "1", "--n", ns(0, 4 if tier == "quick" else 6), "--elem", "nodrop", count_distinct=False),
    ],
    "require_counters": ["drains_leaked"],
    "assumptions": COMMON_ASSUME,
}

PROPS["C12"] = {
    "level": "exploration",
    "rule": "new/default/boxed empty and usable; From<[T; M]> for every M in 0..=2N+1 (M <= 17) and FromIterator for every item count 0..=2N+1: contents are the last min(N, M) source elements by identity, the discarded prefix is destroyed exactly once (drop log); clone / to_vec over every source layout and route, with the source dropped before the copy and vice versa; clone_from over every (destination layout x source layout x source route); into_iter().collect() returns the very elements in order. distinct_nontrivial = distinct (N, constructor, source/destination descriptor).",
    "exhaustive": True,
    "exhaustive_scope": "complete for the capacities listed in the jobs",
    "jobs": lambda tier: [
        J("dbg", "ctor", "--n", ns(0, 6 if tier == "quick" else 10)),
        J("rel", "ctor", "--n", ns(0, 6 if tier == "quick" else 10), count_distinct=False),
        J("dbg", "ctor", "--n", ns(0, 5 if tier == "quick" else 8), "--elem", "nodrop"),
        J("rel", "ctor", "--n", ns(0, 5 if tier == "quick" else 8), "--elem", "nodrop", count_distinct=False),
    ] + ([J("dbg", "sweep", "--n", ns(0, 3), count_distinct=False)] if tier == "quick" else [J("dbg", "sweep", "--n", ns(0, 5), "--thorough", count_distinct=False)]),
    "require_counters": ["ops_executed", "teardowns"],
    "assumptions": COMMON_ASSUME,
}

PROPS["C13"] = {
    "level": "exploration",
    "rule": "all pairs of capacities (N, M), all pairs of front slots, all pairs of contents over a small alphabet for lengths differing by at most one (one sample pair otherwise): == in both directions, !=, partial_cmp, <, >= against slice semantics of the element sequences; == against [U], &[U], &mut [U], [U; K], &[U; K], &mut [U; K]; Ord::cmp, DefaultHasher and a call-sequence-recording hasher across every layout of an equal same-capacity buffer; Debug under 9 formatter flag sets against Vec; f64 with NaN; String vs &str. distinct_nontrivial = distinct (N, M, length pair, front-slot pair) whose whole content product was compared; counter pairs_compared is the number of buffer pairs.",
    "exhaustive": True,
    "exhaustive_scope": "complete for capacities 0..=top and the alphabet stated in the job (2 symbols quick, 3 thorough)",
    "jobs": lambda tier: [
        J("dbg", "cmp", "--n", 5 if tier == "quick" else 6, *th(tier)),
        J("rel", "cmp", "--n", 5 if tier == "quick" else 6, *th(tier), count_distinct=False),
    ],
    "require_counters": ["pairs_compared", "hash_pairs"],
    "assumptions": COMMON_ASSUME,
}

IO_RULE = "byte buffers against a VecDeque<u8> model: every (N, route, front slot, length) x every sequence of {write k (0..=2N+1), write_all, Extend<&u8>, read d (0..=N+2), read_to_end, fill_buf, consume k (0..=N+2, usize::MAX), flush} of the stated depth; counts, bytes delivered, destination bytes beyond the count untouched, contents afterwards; random deeper sequences at N = 16, 61, 1000. "

def io_jobs(cfg, tier, count=True):
    d = 3 if tier == "quick" else 4
    return [
        J(cfg, "io", "--n", ns(0, 3), "--depth", d, count_distinct=count),
        J(cfg, "io", "--n", "4,5", "--depth", d - 1, count_distinct=count),
        J(cfg, "io", "--n", "8,16", "--depth", 2, count_distinct=count),
        J(cfg, "io_random", "--n", "5,16,32,61,255,256,257,1000", "--ops", 4000 if tier == "quick" else 200000, "--emit-distinct", "1", count_distinct=count),
    ]

PROPS["C14"] = {
    "level": "exploration",
    "rule": IO_RULE + "distinct_nontrivial = distinct (state, operation sequence).",
    "jobs": lambda tier: io_jobs("dbg", tier) + [dict(j, count_distinct=False) for j in io_jobs("rel", tier, False)],
    "require_counters": ["io_ops"],
    "assumptions": COMMON_ASSUME,
}

PROPS["C16"] = {
    "level": "exploration",
    "rule": IO_RULE + "Differential: in the feature configurations {embedded-io, embedded-io-async, both} twin buffers built by the identical history receive the same sequence through the embedded-io(-async) traits (async methods polled once with a no-op waker: Pending is a violation) and (return value, bytes, contents) must equal the std::io result at every step. distinct_nontrivial = distinct (state, operation sequence) in the first configuration; counter twin_ops is the number of twin calls compared.",
    "jobs": lambda tier: io_jobs("eioboth", tier) + [dict(j, count_distinct=False) for j in io_jobs("eio", tier, False)] + [dict(j, count_distinct=False) for j in io_jobs("eioa", tier, False)],
    "crate_builds": [("embedded-io", ["--features", "embedded-io"]), ("embedded-io-async", ["--features", "embedded-io-async"]), ("both", ["--features", "embedded-io,embedded-io-async"]),
                     ("embedded-io no_std", ["--no-default-features", "--features", "embedded-io"])],
    "require_counters": ["io_ops", "twin_ops"],
    "assumptions": COMMON_ASSUME + ["std::io behaviour is the reference (itself judged by C14)"],
}

PROPS["C19"] = {
    "level": "exploration",
    "rule": "CircularBuffer<N, Z> (Z zero-sized with counting Drop/Clone) for N in {usize::MAX, usize::MAX-1, 2^63+1, 2^63, 2^63-1, 2^32+1, 2^32, 2^32-1, 65537, 3, 1, 0}: states reached by walking 0..2 slots, 0..4 push_front (front right below N), 0..4 push_back, 0..2 pop_front; every operation whose cost does not grow with N with boundary arguments (fill family only at N <= 65537), 6 follow-ups, plus seeded random histories; judged by a count-level model: Some/None/Ok/Err, lengths, iterator/drain len at every step, created - destroyed == length delta, no panic except the documented ones. Debug build (overflow checks on) and release. distinct_nontrivial = distinct (N, state descriptor, operation with arguments).",
    "jobs": lambda tier: [
        J("dbg", "zst", "--ops", 1500 if tier == "quick" else 100000),
        J("rel", "zst", "--ops", 1500 if tier == "quick" else 100000, count_distinct=False),
    ],
    "require_counters": ["zst_ops"],
    "assumptions": COMMON_ASSUME + ["zero-sized elements have no identity: order is not observable, counts are"],
}


def c18_jobs(tier):
    top = 3 if tier == "quick" else 5
    wl = [
        ("sweep", ["sweep", "--n", ns(0, top)] + th(tier)),
        ("faults", ["faults", "--n", ns(0, top)] + th(tier)),
        ("drain", ["drain", "--n", ns(0, top + 1)]),
        ("drainf", ["drain", "--forget", "1", "--n", ns(0, top + 1)]),
        ("iters", ["iters", "--n", ns(0, top + 1)]),
        ("cmp", ["cmp", "--n", top + 1]),
        ("ctor", ["ctor", "--n", ns(0, top + 2)]),
        ("random", ["random", "--n", RANDOM_NS, "--ops", 1500 if tier == "quick" else 60000]),
        ("nonint", ["nonint", "--n", ns(0, 2 if tier == "quick" else 3)]),
    ]
    out = []
    for (name, args) in wl:
        out.append(J("ndbg", *args, pair=name))
        out.append(J("nunst", *args, pair=name, count_distinct=False))
    if tier == "thorough":
        for (name, args) in wl[:4]:
            out.append(J("nrel", *args, pair=name + "-rel", count_distinct=False))
            out.append(J("nunst-rel", *args, pair=name + "-rel", count_distinct=False))
    return out


PROPS["C18"] = {
    "level": "exploration",
    "rule": "differential over the complete case spaces of C01-C13: the harness is built twice with the same nightly, against the crate with default features and with the `unstable` feature; both run the identical deterministic workloads (single-op sweep, fault enumeration, drain space dropped and leaked, iterator scripts, comparison products, constructors, non-interference variants, seeded random histories) and fold every client-boundary event (element creation with parent, destruction, every touch by clone/eq/cmp/hash/fmt with its site, returned Some/None/Ok/Err/lengths/texts, panics) into a rolling digest per shard; digests must be equal shard by shard. distinct_nontrivial = distinct cases of the default-feature build; counter digest_pairs_compared is the number of shard digests compared.",
    "jobs": c18_jobs,
    "crate_builds": [],
    "require_counters": ["digest_pairs_compared"],
    "assumptions": COMMON_ASSUME + ["both builds use the same nightly compiler; the stable-toolchain default build is covered by the other properties' checks"],
}



# ------------------------------------------------------------------------------------------------
# sanitizer jobs (heap-owning element: a double drop / leak / use-after-free is a real memory error)
# ------------------------------------------------------------------------------------------------

def with_jobs(pid, fn):
    base = PROPS[pid]["jobs"]
    PROPS[pid] = dict(PROPS[pid], jobs=(lambda tier, base=base: base(tier) + fn(tier)))


def S(cfg, *args, shards=16, **kw):
    """sanitizer job: never counted into distinct_nontrivial (the native jobs count)"""
    return J(cfg, *args, shards=shards, count_distinct=False, **kw)


def q(tier, a, b):
    return a if tier == "quick" else b


with_jobs("C03", lambda tier: [
    S("dbg", "ctor", "--n", ns(0, q(tier, 4, 7))),
    S("dbg", "iters", "--n", ns(0, q(tier, 4, 6))),
    S("dbg", "drain", "--n", ns(0, q(tier, 4, 6))),
    S("rel", "drain", "--n", ns(0, q(tier, 4, 6))),
    S("asan", "sweep", "--n", ns(0, q(tier, 3, 5))),
    S("lsan", "sweep", "--n", ns(0, q(tier, 3, 5)), "--noforget", 1),
    S("lsan", "ctor", "--n", ns(0, q(tier, 4, 6))),
    S("lsan", "drain", "--n", ns(0, q(tier, 3, 5))),
    S("asan", "drain", "--n", ns(0, q(tier, 4, 6))),
    S("asan", "iters", "--n", ns(0, q(tier, 3, 5))),
    S("miri", "sweep", "--n", ns(0, q(tier, 2, 3)), "--lean", 1, "--routes", "0,3", "--noforget", 1, "--sample", q(tier, 12, 2)),
] + ([] if tier == "quick" else [
    S("asan", "random", "--n", RANDOM_NS, "--ops", 60000),
    S("miri-tb", "sweep", "--n", ns(0, 3), "--lean", 1, "--routes", "1,6", "--noforget", 1, "--sample", 3),
    S("relheap-mc", "sweep", "--n", ns(0, 3), "--lean", 1, "--routes", "0,1,3", "--noforget", 1),
    S("miri", "ctor", "--n", ns(0, 3), "--sample", 2),
    # element without drop glue (needs_drop == false fast paths) under the UB interpreter
    S("miri", "sweep", "--n", ns(0, 3), "--lean", 1, "--routes", "0,3", "--noforget", 1, "--elem", "nodrop", "--sample", 4),
    S("miri", "drain", "--n", ns(0, 3), "--lean", 1, "--routes", "0,3", "--elem", "nodrop", "--sample", 3),
]))

with_jobs("C04", lambda tier: [
    S("miri", "nonint", "--n", ns(0, q(tier, 2, 3)), "--lean", 1, "--nopoke", 1, "--routes", "0,1,3", "--noforget", 1, "--sample", q(tier, 12, 2)),
    S("rel-mc", "nonint", "--n", ns(0, q(tier, 2, 4)), "--lean", 1, "--nopoke", 1, "--routes", "0,1,3", "--sample", q(tier, 4, 1)),
] + ([] if tier == "quick" else [
    S("miri-plain", "nonint", "--n", ns(0, 3), "--lean", 1, "--nopoke", 1, "--routes", "0,2,3", "--noforget", 1, "--sample", 3),
    S("rel-mc", "cmp", "--n", 3),
    S("miri-plain", "nonint", "--n", ns(0, 3), "--lean", 1, "--nopoke", 1, "--routes", "0,3", "--noforget", 1, "--elem", "nodrop", "--sample", 4),
    S("rel-mc", "nonint", "--n", ns(0, 3), "--lean", 1, "--nopoke", 1, "--routes", "0,3", "--elem", "nodrop", "--sample", 2),
]))

with_jobs("C05", lambda tier: [
    S("asan", "faults", "--n", ns(0, q(tier, 3, 5)), "--kinds", "drop"),
    S("miri-noleak", "faults", "--n", ns(0, q(tier, 2, 3)), "--kinds", "drop", "--lean", 1, "--routes", "0,3", "--sample", q(tier, 3, 1)),
])

with_jobs("C06", lambda tier: [
    S("asan", "faults", "--n", ns(0, q(tier, 3, 5)), "--kinds", "user"),
    S("lsan", "faults", "--n", ns(0, q(tier, 3, 5)), "--kinds", "user"),
    S("miri", "faults", "--n", ns(0, q(tier, 2, 3)), "--kinds", "user", "--lean", 1, "--routes", "0,3", "--sample", q(tier, 3, 1)),
] + ([] if tier == "quick" else [
    S("relheap-mc", "faults", "--n", ns(0, 3), "--kinds", "user", "--lean", 1, "--routes", "0,3"),
]))

with_jobs("C07", lambda tier: [
    S("miri", "sweep", "--n", ns(0, q(tier, 2, 3)), "--routes", "0,3", "--opfilter", "mut,make_contiguous", "--noforget", 1, "--sample", q(tier, 24, 4)),
    S("miri", "iters", "--n", ns(0, q(tier, 2, 3)), "--routes", "0", "--sample", q(tier, 16, 3)),
] + ([] if tier == "quick" else [
    S("miri-tb", "iters", "--n", ns(0, 3), "--routes", "1", "--sample", 4),
]))

with_jobs("C08", lambda tier: [
    S("miri", "iters", "--n", ns(0, q(tier, 2, 3)), "--routes", "1", "--sample", q(tier, 16, 3)),
])

with_jobs("C09", lambda tier: [
    S("asan", "drain", "--n", ns(0, q(tier, 4, 6))),
    S("miri", "drain", "--n", ns(0, q(tier, 3, 4)), "--lean", 1, "--routes", "0,3", "--sample", q(tier, 10, 2)),
] + ([] if tier == "quick" else [
    S("miri-tb", "drain", "--n", ns(0, 3), "--lean", 1, "--routes", "1", "--sample", 2),
]))

with_jobs("C10", lambda tier: [
    S("asan", "drain", "--forget", 1, "--n", ns(0, q(tier, 4, 6))),
    S("miri-noleak", "drain", "--forget", 1, "--n", ns(0, q(tier, 3, 4)), "--lean", 1, "--routes", "0,3", "--sample", q(tier, 10, 2)),
])

with_jobs("C19", lambda tier: [
    S("miri-plain", "zst", "--z", q(tier, "0,2,9", "0,1,2,3,5,9,10"), "--ops", 0, "--lean", 1, "--sample", q(tier, 80, 12)),
])


def zst_extra(tier):
    return [S("dbg", "zst", "--ops", 1000 if tier == "quick" else 50000), S("rel", "zst", "--ops", 1000 if tier == "quick" else 50000)]


for _p in ("C01", "C02", "C03", "C07", "C08", "C09", "C11"):
    with_jobs(_p, zst_extra)

# writes through iter_mut / range_mut with internal iteration (for_each, fold): the iterator workload
# also feeds C01 and C07
for _p in ("C01", "C07"):
    with_jobs(_p, lambda tier: [S("dbg", "iters", "--n", ns(0, q(tier, 4, 6))), S("rel", "iters", "--n", ns(0, q(tier, 5, 7)))])

with_jobs("C06", zst_extra)
# large buffers (> 64 KiB): clone / clone_from / fill in random histories of the 128-byte element
with_jobs("C17", lambda tier: [S("rel", "random", "--n", "1000", "--elem", "wide", "--ops", q(tier, 20000, 200000), "--emit-distinct", 1)])

# C17: the byte-stream traits are operations too (write, write_all, read, read_exact, consume, flush
# and Extend<&u8> must not allocate)
with_jobs("C17", lambda tier: [S("dbg", "io", "--n", ns(0, 3), "--depth", q(tier, 2, 3)), S("rel", "io", "--n", "4,5,8", "--depth", 2),
                               S("dbg", "io_random", "--n", "5,16,61,1000", "--ops", q(tier, 4000, 100000), "--emit-distinct", 1)])

# C13: Debug / Hash / == / cmp of a buffer against a differently laid out equal buffer inside the
# sweep and the random histories (large capacities: Debug of long buffers)
with_jobs("C13", lambda tier: [S("dbg", "sweep", "--n", ns(0, q(tier, 3, 5)), "--opfilter", "debug_fmt,hash,eq,cmp"),
                               S("rel", "random", "--n", "8,16,61,1000", "--ops", q(tier, 6000, 100000), "--emit-distinct", 1),
                               S("dbg", "random", "--n", "61,1000", "--ops", q(tier, 3000, 50000), "--emit-distinct", 1)])

def random_fault_jobs(tier):
    ops = 3000 if tier == "quick" else 80000
    return [S("dbg", "random", "--n", RANDOM_NS, "--ops", ops, "--faults", 1, "--emit-distinct", 1),
            S("rel", "random", "--n", RANDOM_NS, "--ops", ops, "--faults", 1, "--emit-distinct", 1),
            S("rel", "random", "--n", RANDOM_NS_BIG, "--ops", ops // 2, "--faults", 1, "--emit-distinct", 1),
            S("dbg", "random", "--n", "1,2,3,5,16", "--ops", ops, "--faults", 1, "--elem", "wide", "--emit-distinct", 1, shards=8),
            S("asan", "random", "--n", "0,1,2,3,5,8,16,61", "--ops", ops, "--faults", 1, "--emit-distinct", 1)]


with_jobs("C05", random_fault_jobs)
with_jobs("C06", random_fault_jobs)
with_jobs("C04", lambda tier: [S("dbg", "faults", "--n", ns(0, q(tier, 4, 6)), "--c04", 1, *th(tier)),
                               S("rel", "faults", "--n", ns(0, q(tier, 4, 6)), "--c04", 1, *th(tier)),
                               S("dbg", "random", "--n", "0,1,2,3,5,8,16,61", "--ops", 3000 if tier == "quick" else 80000, "--repaint", 1, "--faults", 1, "--c04", 1, "--emit-distinct", 1),
                               S("dbg", "random", "--n", "0,1,2,3,5,8,16,61", "--ops", 3000 if tier == "quick" else 80000, "--repaint", 1, "--emit-distinct", 1),
                               S("rel", "random", "--n", "0,1,2,3,5,8,16,61", "--ops", 3000 if tier == "quick" else 80000, "--repaint", 1, "--emit-distinct", 1),
                               S("rel", "random", "--n", "1,2,5,16", "--ops", 3000 if tier == "quick" else 80000, "--repaint", 1, "--elem", "nodrop", "--emit-distinct", 1, shards=8)])

# C11 quantifies over every operation of the API: the byte-stream traits too
with_jobs("C11", lambda tier: [S("dbg", "io", "--n", ns(0, 3), "--depth", 2), S("rel", "io", "--n", ns(0, 3), "--depth", 2),
                               S("dbg", "ctor", "--n", ns(0, 4)), S("dbg", "iters", "--n", ns(0, 4)), S("dbg", "cmp", "--n", 3)])

NATIVE_NOTE = "Trusted base: the harness itself (element type, ledger, model written from the documentation, orchestrator), rustc/cargo, the determinism of the crate (no threads/clock/IO). Held only on the executions produced; nothing is proved."

MANIFEST_TEXT = {
    "C01": {"technique": "runtime monitoring: real crate vs executable deque model after every call (exhaustive small-scope sweep + seeded random histories), debug+release",
            "text": "Every API operation is executed on the real buffer from every (capacity, front slot, length) for N<=5 debug / N<=6 release (quick), N<=7 / N<=8 (thorough), three element types (with destructor hook, wide and 32-aligned, without drop glue), reached by up to 7 construction routes, with boundary/out-of-range arguments, and compared after the call with a sequential model written from the docs: return value by element identity, contents by identity and value through every view. Random hostile histories extend this to long sequences and N=16/61/1000; the zero-sized-element workload extends it to capacities up to usize::MAX. Exploration is the right level: the state space per capacity is tiny and enumerated completely, larger capacities are sampled.",
            "design_ref": "DESIGN.md 4/C01", "note": NATIVE_NOTE},
    "C02": {"technique": "runtime monitoring: identity-tracking tokens + ledger on every push/try_push of the sweep and random histories",
            "text": "All push/try_push calls of the C01 executions (all N including 0, every layout and length, both ends) judged by element identity: the returned element must be that very displaced/rejected token, Err iff is_full() before the call, and the ledger shows if the argument was silently destroyed.",
            "design_ref": "DESIGN.md 4/C02", "note": NATIVE_NOTE},
    "C03": {"technique": "runtime monitoring: drop ledger reconciliation after every call + Miri/ASan/memcheck with heap-owning elements",
            "text": "Ledger oracle over the C01 executions: no DoubleDrop/StaleTouched event, live(ledger) == contents + held after every call, nothing alive after teardown; owning iterators and drains consumed by every script and dropped after every prefix. Sanitizer runs with a Box-owning element turn a double drop/leak/use-after-free into an independent report.",
            "design_ref": "DESIGN.md 4/C03", "note": NATIVE_NOTE + " Sanitizers see only the paths the workload drives; red-zone tools do not see wrong-slot accesses inside the array (that is the ledger's job)."},
    "C04": {"technique": "runtime monitoring: non-interference by trace comparison across garbage fillings / histories / front slots + Miri and memcheck for typed reads of uninitialised memory",
            "text": "Each (state, call) is run under every filling of the unoccupied slots (natural stale bytes, 0x00/0xFF/0x5A, byte copies of dead and of live elements), every construction route and every front slot; canonical traces must be equal and no injected copy may ever be touched, cloned, compared or destroyed.",
            "design_ref": "DESIGN.md 4/C04", "note": NATIVE_NOTE + " Slot geometry is calibrated from element addresses and self-checked; if the check fails poking is disabled and the evidence says so."},
    "C05": {"technique": "fault injection: k-th destructor panics once, enumerated over all destroying operations, states and k; ledger + validity + follow-ups; ASan/Miri with heap-owning elements",
            "text": "Complete enumeration, for N<=5 (quick) / N<=7 (thorough), of which destructor call panics inside truncate/clear/fill/extend/extend_from_slice/clone_from/From<[T;M]>/collect/drop of drain, owning iterator and buffer. After the caught panic the buffer must be a valid sequence, keep working under the model, and no element may ever be destroyed twice up to the final drop.",
            "design_ref": "DESIGN.md 4/C05", "note": NATIVE_NOTE + " One fault per execution."},
    "C06": {"technique": "fault injection: k-th clone/closure/iterator/eq/cmp/hash/fmt call panics once, enumerated; ledger leak accounting at teardown",
            "text": "Complete enumeration of the panicking user-code invocation for every operation that runs user code, every layout (free space in one or two segments) and argument length; afterwards validity, follow-ups under the model, and nothing created during the case may remain alive once the buffer is dropped.",
            "design_ref": "DESIGN.md 4/C06", "note": NATIVE_NOTE + " One fault per execution."},
    "C07": {"technique": "runtime monitoring: cross-view observer comparing identity, value and address through every read/mutable view after every call; write-through probes; Miri aliasing check",
            "text": "After every operation of the sweep and random histories all views are read for positions 0..=len+1 and usize::MAX and every sub-range, and must agree with each other and the model by identity and address; one write through each mutable view must change exactly that position.",
            "design_ref": "DESIGN.md 4/C07", "note": NATIVE_NOTE},
    "C08": {"technique": "runtime monitoring: exhaustive next/next_back script enumeration with len/size_hint/clone oracles at every step",
            "text": "Complete enumeration (N<=5 debug / 6 release quick, N<=7/8 thorough) of layouts x ranges in every RangeBounds form x scripts over {next, next_back} of length <= selected+2, plus scripts with nth/nth_back steps, for the five iterator kinds.",
            "design_ref": "DESIGN.md 4/C08", "note": NATIVE_NOTE},
    "C09": {"technique": "runtime monitoring: complete drain configuration space vs model with identity + ledger; ASan/Miri over the raw-copy back-fill",
            "text": "Every layout x range x consumption script (N<=5 quick, N<=8 thorough), drain dropped after the script: yields, len per step, final contents by identity, drained-but-unyielded elements destroyed exactly once, follow-ups.",
            "design_ref": "DESIGN.md 4/C09", "note": NATIVE_NOTE},
    "C10": {"technique": "fault injection: mem::forget of the drain after every script prefix; validity predicate + re-synchronised model + ledger until final drop",
            "text": "Same space as C09 with the drain leaked after every prefix of every script; what survives is unspecified and not judged, validity (live, distinct, from the original contents, disjoint from what was handed out), later behaviour and absence of double drops are.",
            "design_ref": "DESIGN.md 4/C10", "note": NATIVE_NOTE},
    "C11": {"technique": "runtime monitoring: catch_unwind around every call vs the model's must_panic predicate; buffer-unchanged check after documented panics",
            "text": "Every call of the sweep (N=0 first-class, indices up to usize::MAX, all bound-kind pairs incl. Excluded(usize::MAX)/Included(usize::MAX)) must panic iff documented, and a documented panic must leave contents and addresses unchanged; debug and release judged separately.",
            "design_ref": "DESIGN.md 4/C11", "note": NATIVE_NOTE + " Termination is only observed as 'the call returned within the run'; a hang shows as a timeout = inconclusive."},
    "C12": {"technique": "runtime monitoring: constructors/conversions vs model by identity, drop log for discarded elements, source/copy independence in both drop orders",
            "text": "All array sizes M in 0..=2N+3 and iterator lengths (with exact and inexact size hints), every source layout for clone/to_vec/into_iter, every (destination x source) layout pair for clone_from, for N<=6 (quick) / N<=10 (thorough), with and without drop glue.",
            "design_ref": "DESIGN.md 4/C12", "note": NATIVE_NOTE},
    "C13": {"technique": "runtime monitoring: exhaustive product of capacities x layouts x contents against slice semantics, with a call-sequence-recording hasher",
            "text": "Complete product for capacities 0..=5 (quick) / 0..=6 (thorough) of both sides' layouts and contents over a 2 (3) symbol alphabet, so every physical split of A meets every split of B in all branches of the alignment code.",
            "design_ref": "DESIGN.md 4/C13", "note": NATIVE_NOTE},
    "C14": {"technique": "runtime monitoring: std::io calls vs VecDeque<u8> model over exhaustive bounded interleavings + random sequences",
            "text": "Every layout x every sequence of write/read/fill_buf/consume/flush of depth 3 (4 thorough) at N<=3, shallower at N<=16, random at N up to 1000, in debug and release.",
            "design_ref": "DESIGN.md 4/C14", "note": NATIVE_NOTE},
    "C16": {"technique": "differential runtime monitoring: embedded-io / embedded-io-async calls on twin buffers vs the std::io trace, in the three feature configurations",
            "text": "The C14 workload in the feature configurations {embedded-io, embedded-io-async, both}: twin buffers, lock-step, (return, bytes, contents) equal to std::io at every step, never Err, async never Pending. The crate must also build in those configurations.",
            "design_ref": "DESIGN.md 4/C16", "note": NATIVE_NOTE},
    "C17": {"technique": "runtime monitoring: counting global allocator scoped to crate calls, in std / alloc-only / no-default-features builds of the crate; plus cargo build of the crate without std/alloc",
            "text": "Zero allocator events attributable to any non-panicking call other than to_vec/boxed over the sweep and random histories with a non-allocating element type, in the three feature configurations; the crate alone must build with --no-default-features and with alloc only (a build observation, labelled as such).",
            "design_ref": "DESIGN.md 4/C17", "note": NATIVE_NOTE},
    "C18": {"technique": "differential runtime monitoring: rolling digest of all client-boundary events, default vs `unstable` feature on the same nightly",
            "text": "All deterministic workloads of C01-C13 run in both builds and every observable event is folded into per-shard digests which must be identical.",
            "design_ref": "DESIGN.md 4/C18", "note": NATIVE_NOTE},
    "C19": {"technique": "runtime monitoring: count-level model for zero-sized elements at extreme capacities, overflow-checking debug build + release",
            "text": "12 capacities up to usize::MAX, front positions within 4 of 0 and of N, lengths <= 8, every operation whose cost does not grow with N with boundary arguments; any arithmetic-overflow/division/bounds panic or wrong count is a violation.",
            "design_ref": "DESIGN.md 4/C19", "note": NATIVE_NOTE},
    "C20": {"technique": "runtime monitoring: relocation counting by element identity and address before/after each call",
            "text": "Relocations of surviving elements per call checked against the property's bounds over the sweep (all layouts x arguments, two element sizes) and random histories at N = 61 and 1000, where a per-call normalisation would relocate tens to hundreds of elements.",
            "design_ref": "DESIGN.md 4/C20", "note": NATIVE_NOTE + " An element moved away and back within one call is invisible (and is not a relocation by the property's definition)."},
}
