#!/usr/bin/env python3
"""Development aid: run checks against seeded changes in a scratch copy (/tmp/mt), leaving /repo
and /verif free. usage: tools/seedrun.py <name>=<patch>:<PROP>[,<PROP>...] ...   [--tier T] [--cfg dbg,...]
Results are appended to /tmp/mt/results.jsonl."""
import subprocess, sys, os, re, json, shutil, time
MT = os.environ.get("SEEDRUN_MT", "/tmp/mt")
args = sys.argv[1:]
tier = "quick"; cfg = None
if "--tier" in args:
    i = args.index("--tier"); tier = args[i + 1]; del args[i:i + 2]
if "--cfg" in args:
    i = args.index("--cfg"); cfg = args[i + 1]; del args[i:i + 2]
os.makedirs(MT, exist_ok=True)
repo = os.path.join(MT, "repo")
if not os.path.exists(repo):
    subprocess.run(["git", "-C", "/repo", "worktree", "add", "-q", "--detach", repo, "HEAD"], check=True)
subprocess.run(["git", "-C", repo, "checkout", "-q", "--detach", subprocess.check_output(["git", "-C", "/repo", "rev-parse", "HEAD"], text=True).strip()], check=True)
subprocess.run(["git", "-C", repo, "checkout", "--", "."], check=True)
# fresh copy of the harness sources pointing at the scratch repo
h = os.path.join(MT, "harness")
shutil.rmtree(h, ignore_errors=True)
shutil.copytree("/verif/harness", h, ignore=shutil.ignore_patterns("target*"))
ct = open(os.path.join(h, "Cargo.toml")).read().replace('path = "/repo"', f'path = "{repo}"')
open(os.path.join(h, "Cargo.toml"), "w").write(ct)
env = dict(os.environ, VERIF_ALT_HARNESS=h, VERIF_ALT_TARGET=os.path.join(MT, "target"), VERIF_ALT_REPO=repo, VERIF_ALT_OUT=os.path.join(MT, "out"))
if cfg:
    env["VERIF_ONLY_CFG"] = cfg
for spec in args:
    name, rest = spec.split("=", 1)
    patch, props = rest.rsplit(":", 1)
    r = subprocess.run(["git", "-C", repo, "apply", os.path.abspath(patch)], capture_output=True, text=True)
    if r.returncode != 0:
        print(name, "patch does not apply:", r.stderr.strip()); continue
    try:
        for p in props.split(","):
            t0 = time.time()
            c = subprocess.run(["/verif/check", p, "--tier", tier], capture_output=True, text=True, cwd="/verif", env=env)
            sigs = re.findall(r"signature: (.*)", c.stdout)
            verdict = {0: "MISSED", 1: "CAUGHT", 2: "INCONCLUSIVE"}.get(c.returncode, f"rc={c.returncode}")
            inc = [l for l in c.stdout.splitlines() if l.startswith("INCONCLUSIVE")][:2]
            print(f"{name} {p}: {verdict} ({len(sigs)} sigs, {time.time()-t0:.0f}s) {sigs[0][:150] if sigs else ''} {inc[0][:300] if inc and verdict!='CAUGHT' else ''}", flush=True)
            open(os.path.join(MT, "results.jsonl"), "a").write(json.dumps({"seed": name, "prop": p, "verdict": verdict, "tier": tier, "cfg": cfg, "sigs": sigs[:6]}) + "\n")
    finally:
        subprocess.run(["git", "-C", repo, "checkout", "--", "."], check=True)
