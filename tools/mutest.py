#!/usr/bin/env python3
"""Apply a seeded change to /repo, run the quick checks of the given properties, undo the change.
usage: tools/mutest.py <patch.diff> <PROP> [<PROP> ...] [--tier thorough]
Prints one line per property: CAUGHT / MISSED / INCONCLUSIVE, with the first violation signature."""
import subprocess, sys, os, re, time
patch = os.path.abspath(sys.argv[1])
args = sys.argv[2:]
tier = "quick"
if "--tier" in args:
    i = args.index("--tier"); tier = args[i + 1]; del args[i:i + 2]
props = args
st = subprocess.run(["git", "-C", "/repo", "status", "--porcelain", "--untracked-files=no"], capture_output=True, text=True).stdout.strip()
if st:
    print("refusing: /repo working tree is not clean:\n" + st); sys.exit(3)
r = subprocess.run(["git", "-C", "/repo", "apply", patch], capture_output=True, text=True)
if r.returncode != 0:
    print("patch does not apply:", r.stderr); sys.exit(3)
res = {}
try:
    for p in props:
        t0 = time.time()
        c = subprocess.run(["/verif/check", p, "--tier", tier], capture_output=True, text=True, cwd="/verif")
        out = c.stdout
        sigs = re.findall(r"signature: (.*)", out)
        nviol = len(re.findall(r"^VIOLATION ", out, re.M))
        verdict = {0: "MISSED", 1: "CAUGHT", 2: "INCONCLUSIVE"}.get(c.returncode, f"rc={c.returncode}")
        res[p] = verdict
        print(f"{p}: {verdict} ({nviol} signatures, {time.time()-t0:.0f}s) {sigs[0][:160] if sigs else ''}")
        if verdict == "INCONCLUSIVE":
            print("   ", [l for l in out.splitlines() if l.startswith("INCONCLUSIVE")][:2])
finally:
    subprocess.run(["git", "-C", "/repo", "checkout", "--", "."], check=True)
    st = subprocess.run(["git", "-C", "/repo", "status", "--porcelain", "--untracked-files=no"], capture_output=True, text=True).stdout.strip()
    assert not st, st
