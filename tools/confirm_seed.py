#!/usr/bin/env python3
"""Confirm a seeded change in a scratch worktree of /repo (outside /repo and /verif):
  1. the demonstration passes on the unchanged tree,
  2. with the change applied the crate builds and the existing suite passes unedited,
  3. with the change applied the demonstration fails.
usage: tools/confirm_seed.py <patch.diff> <demo.rs> [--features F] [--toolchain nightly] [--keep]
Prints CONFIRMED or the step that failed. The worktree is removed afterwards."""
import subprocess, sys, os, shutil
patch, demo = os.path.abspath(sys.argv[1]), os.path.abspath(sys.argv[2])
feat = None; tc = None
a = sys.argv[3:]
if "--features" in a: feat = a[a.index("--features") + 1]
if "--toolchain" in a: tc = a[a.index("--toolchain") + 1]
rel = "--release" in a   # the demonstration needs an optimised build (the existing suite is still run as prescribed, in debug)
W = os.environ.get("CONFIRM_WT", "/tmp/confirm_wt")
TGT = os.environ.get("CONFIRM_TARGET", "/tmp/confirm_target")
env = dict(os.environ, CARGO_TARGET_DIR=TGT, CARGO_NET_OFFLINE="true")
subprocess.run(["git", "-C", "/repo", "worktree", "remove", "--force", W], capture_output=True)
subprocess.run(["git", "-C", "/repo", "worktree", "prune"], capture_output=True)
subprocess.run(["git", "-C", "/repo", "worktree", "add", "-q", "--detach", W, "HEAD"], check=True)
def cargo(*args):
    extra = ["--release"] if (rel and "demo_seed" in args) else []
    cmd = ["cargo"] + ([f"+{tc}"] if tc else []) + list(args) + extra + ["--offline"] + (["--features", feat] if feat else [])
    r = subprocess.run(cmd, cwd=W, env=env, capture_output=True, text=True)
    return r.returncode, (r.stdout + r.stderr)[-2500:]
ok = True
try:
    shutil.copy(demo, os.path.join(W, "tests", "demo_seed.rs"))
    rc, out = cargo("test", "--test", "demo_seed")
    if rc != 0:
        print("STEP1 FAILED: demo does not pass on the unchanged tree\n", out); ok = False
    os.remove(os.path.join(W, "tests", "demo_seed.rs"))
    r = subprocess.run(["git", "-C", W, "apply", patch], capture_output=True, text=True)
    if r.returncode != 0:
        print("patch does not apply:", r.stderr); ok = False
    else:
        rc, out = cargo("test", "--no-fail-fast")
        if rc != 0:
            print("STEP2 FAILED: existing suite fails with the change\n", out); ok = False
        if feat or tc:
            # the default configuration must pass as well
            r2 = subprocess.run(["cargo", "test", "--offline", "--no-fail-fast"], cwd=W, env=env, capture_output=True, text=True)
            if r2.returncode != 0:
                print("STEP2b FAILED: existing suite (default features, stable) fails with the change\n", (r2.stdout + r2.stderr)[-2000:]); ok = False
        shutil.copy(demo, os.path.join(W, "tests", "demo_seed.rs"))
        rc, out = cargo("test", "--test", "demo_seed")
        if rc == 0:
            print("STEP3 FAILED: demo passes although the change is applied"); ok = False
        else:
            fails = [l for l in out.splitlines() if "FAILED" in l or "panicked" in l][:4]
            print("demo fails with the change:", " | ".join(fails)[:400])
finally:
    subprocess.run(["git", "-C", "/repo", "worktree", "remove", "--force", W], capture_output=True)
    subprocess.run(["git", "-C", "/repo", "worktree", "prune"], capture_output=True)
print("CONFIRMED" if ok else "NOT CONFIRMED")
sys.exit(0 if ok else 1)
