#!/usr/bin/env python3
"""Rounds 6 and 7 (one seed per property, ids <PROP>-11 / -12 / -13; scratch in /tmp/mut6, /tmp/mut7, /tmp/mut8): copy /tmp/mut6/<PROP>/OUT into /verif/seeded/<PROP>-11/
with meta.json; check results are read from /tmp/mt6_<PROP>/results.jsonl (tools/seedrun.py with SEEDRUN_MT)."""
import json, os, shutil, glob
NEEDS = {
 "C04-11": "Drain::drop 'hole at the front' fast path advances start by iter.end instead of range.end: needs drain(..k) with k >= 1 consumed at least once from the back (next_back/rev) and then dropped; the front then exposes moved-out slots and the back loses live elements",
 "C08-11": "slice_take(..index) rejects index == len and Iter::advance_front_by uses >=: needs range(a..b) on a wrapped buffer with a exactly at the wrap seam (a == as_slices().0.len()); yields the whole right segment and a wrong len",
 "C10-11": "Drain::over_range sets buf.size = 0 only when mem::needs_drop::<T>(): needs an element type without drop glue, a drain that yielded at least one item, and mem::forget of the drain; handed-out items stay reachable through the buffer",
 "C12-11": "clone_from fast path for equal lengths zips front with front and back with back segments: needs destination and source of equal length whose wrap points differ; the destination keeps some of its old elements",
 "C13-11": "Ord::cmp compares the as_slices() halves pairwise: needs two buffers whose left segments differ in length (different start, at least one wrapped); cmp then disagrees with partial_cmp and with the logical order",
 "C14-11": "Read::read goes through fill_buf()/consume(): needs wrapped contents and a destination longer than the front segment; read returns fewer than min(dst.len(), len) bytes",
 "C19-11": "Drain::as_mut_slices computes (start + iter.len()) % N instead of add_mod: needs N within a few units of usize::MAX (zero-sized element), start just below N (push_front from empty) and a dropped drain with >= 2 un-yielded elements straddling the physical end; debug: overflow panic, release: too few destructors",
 "C20-11": "make_contiguous contiguity test `start < end || start == 0`: needs contiguous contents that end exactly at the array end with start > 0 (fill, pop_front k times); every element is rotated although nothing was wrapped",
 "C05-12": "truncate_front advances start after drop_range instead of before (size is still shrunk before): needs a destructor panic during truncate_front(len) with len > 0 (directly or via an overflowing extend_from_slice); afterwards the already destroyed front elements are exposed as live and destroyed again",
 "C06-12": "extend_from_slice (other.len() < N branch) sets size once at the end instead of after each spare segment: needs free space that wraps the array end and a clone() panic while filling the second segment; the clones already written to the first segment are never dropped",
 "C07-12": "Iter::advance_back_by empties `left` before computing how much of `right` to keep: needs wrapped contents and range(a..b) whose end falls inside the first segment; range() then disagrees with range_mut()/to_vec or panics with a subtraction overflow",
 "C09-12": "Drain::as_mut_slices (used by Drain::drop) ends at range.end instead of iter.end: needs at least one next_back() and then an early drop with items still un-yielded; the back-yielded elements are destroyed a second time",
 "C16-12": "embedded-io(-async) BufRead::consume clamps amt to the front segment length instead of len(): needs wrapped contents with a non-empty back segment and consume(amt) with amt larger than the front segment; diverges from std::io::BufRead::consume",
 "C01-13": "fill_spare_with writes straight into the two spare segments and fills 0..start only when end > start: needs an empty buffer whose front slot is not 0 (push k, pop_front k; or truncate_front(0)); fill_with/fill_spare_with then fill only start..N and call the closure too few times",
 "C02-13": "try_push_back tests start + size >= N instead of size >= N and writes items[start + size] without wrapping: needs a buffer that is not full with start > 0 and start + size >= N; returns a spurious Err(item)",
 "C11-13": "swap_remove_back tests `index + 1 == size` before the bounds check: needs index == usize::MAX; overflow panic in debug builds instead of None (release wraps and returns None)",
 "C17-13": "make_contiguous stashes the wrapped head in a temporary Vec under cfg(feature = \"alloc\"): needs wrapped contents that are not full, a non-zero-sized element and the alloc or std feature; one heap allocation inside make_contiguous",
 "C18-13": "Drain::as_mut_slices returns (left, right) swapped in the cfg(not(feature = \"unstable\")) block only: needs a drain dropped with un-yielded elements whose range crosses the physical wrap point; the remainder is destroyed in a different order on stable than with `unstable`",
}
for sid, needs in sorted(NEEDS.items()):
    prop, k = sid.split("-")
    rnd = {"11": "6", "12": "7", "13": "8"}[k]
    d = f"/tmp/mut{rnd}/{prop}/OUT"
    if not os.path.isdir(d):
        continue   # already adopted, scratch removed
    out = f"/verif/seeded/{sid}"
    os.makedirs(out, exist_ok=True)
    for f in ("patch.diff", "demo.rs", "notes.md"):
        shutil.copy(os.path.join(d, f), os.path.join(out, f))
    res = {}
    for f in glob.glob(f"/tmp/mt{rnd}_{prop}/results*.jsonl"):
        for l in open(f):
            r = json.loads(l)
            if r["seed"] == sid:
                res[(r["prop"], r.get("tier", "quick"), r.get("cfg"))] = r
    meta = {
        "id": sid, "breaks_property": prop,
        "origin": "independent sub-agent given only the property text and a scratch worktree of /repo (round " + rnd + ")",
        "needs_to_manifest": needs,
        "confirmed_by": "tools/confirm_seed.py patch.diff demo.rs" + (" --features embedded-io" if prop == "C16" else "") + " (scratch worktree: demo passes unchanged; existing suite passes with the change; demo fails with the change)",
        "check_runs": [{"check": pp, "tier": tier, "configurations": cfg or "all", "verdict": r["verdict"], "first_signatures": r["sigs"][:3]}
                       for (pp, tier, cfg), r in sorted(res.items(), key=lambda kv: (kv[0][0], kv[0][1], kv[0][2] or ""))],
    }
    json.dump(meta, open(os.path.join(out, "meta.json"), "w"), indent=1)
    print(sid, [(x["check"], x["configurations"], x["verdict"]) for x in meta["check_runs"]])
