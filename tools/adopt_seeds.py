#!/usr/bin/env python3
"""Copy confirmed seeded changes from the scratch worktrees into /verif/seeded/<id>/ with meta.json.
usage: tools/adopt_seeds.py   (reads /tmp/mut/<PROP>/OUT and /tmp/mt/results*.jsonl)"""
import json, os, shutil, glob, re
NEEDS = json.load(open("/verif/tools/seed_needs.json")) if os.path.exists("/verif/tools/seed_needs.json") else {}
res = {}
for f in glob.glob("/tmp/mt/results*.jsonl"):
    for l in open(f):
        r = json.loads(l)
        res.setdefault(r["seed"], {})[(r["prop"], r.get("tier", "quick"), r.get("cfg"))] = r
SKIP = {"C19-4": "fails the existing randomized test most of the time"}
for d in sorted(glob.glob("/tmp/mut/C*/OUT")) + sorted(glob.glob("/tmp/mut2/C*/OUT")) + sorted(glob.glob("/tmp/mut3/C*/OUT")) + sorted(glob.glob("/tmp/mut4/C*/OUT")) + sorted(glob.glob("/tmp/mut5/C*/OUT")):
    prop = d.split("/")[3]
    off = {"/tmp/mut2": 2, "/tmp/mut3": 4, "/tmp/mut4": 6, "/tmp/mut5": 8}.get(d[:9], 0)
    for i in (1, 2):
        p = os.path.join(d, f"patch{i}.diff")
        if not os.path.exists(p):
            continue
        sid = f"{prop}-{i + off}"
        if sid in SKIP:
            continue
        out = f"/verif/seeded/{sid}"
        os.makedirs(out, exist_ok=True)
        shutil.copy(p, os.path.join(out, "patch.diff"))
        shutil.copy(os.path.join(d, f"demo{i}.rs"), os.path.join(out, "demo.rs"))
        notes = open(os.path.join(d, f"notes{i}.md")).read() if os.path.exists(os.path.join(d, f"notes{i}.md")) else ""
        open(os.path.join(out, "notes.md"), "w").write(notes)
        meta_path = os.path.join(out, "meta.json")
        meta = json.load(open(meta_path)) if os.path.exists(meta_path) else {}
        meta.update({
            "id": sid,
            "breaks_property": prop,
            "origin": "independent sub-agent given only the property text and a scratch worktree of /repo",
            "needs_to_manifest": NEEDS.get(sid, meta.get("needs_to_manifest", "see notes.md")),
            "confirmed_by": "tools/confirm_seed.py patch.diff demo.rs" + NEEDS.get(sid + ":confirm_args", "") + " (scratch worktree: demo passes unchanged; existing suite passes with the change; demo fails with the change)",
        })
        runs = []
        for (pp, tier, cfg), r in sorted(res.get(sid, {}).items(), key=lambda kv: (kv[0][0], kv[0][1], kv[0][2] or "")):
            entry = {"check": pp, "tier": tier, "configurations": cfg or "all", "verdict": r["verdict"], "first_signatures": r["sigs"][:3]}
            if entry not in runs:
                runs.append(entry)
        meta["check_runs"] = runs
        json.dump(meta, open(meta_path, "w"), indent=1)
        print(sid, [(x["check"], x["verdict"]) for x in runs])
