#!/usr/bin/env python3
"""Print the markdown table of seeded changes (DESIGN.md section 10) from /verif/seeded/*/meta.json."""
import json, glob, os
rows = []
for f in sorted(glob.glob("/verif/seeded/*/meta.json"), key=lambda p: (p.split("/")[3].split("-")[0], int(p.split("/")[3].split("-")[1]))):
    m = json.load(open(f))
    caught = sorted({r["check"] for r in m.get("check_runs", []) if r["verdict"] == "CAUGHT"})
    missed = sorted({r["check"] for r in m.get("check_runs", []) if r["verdict"] == "MISSED"} - set(caught))
    first = next((r["first_signatures"][0] for r in m.get("check_runs", []) if r["verdict"] == "CAUGHT" and r["check"] == m["breaks_property"] and r["first_signatures"]), "")
    hist = m.get("history", "")
    what = m["needs_to_manifest"].split(": needs")[0].split(": only")[0]
    if len(what) > 120:
        what = what[:117] + "..."
    note = "outside the properties' quantifiers, see meta.json" if m.get("judgement") else ""
    rows.append((m["id"], what.replace("|", "/"), ", ".join(caught) or "-", first[:80].replace("|", " / "), note))
print("| seed | change (details: seeded/<seed>/) | caught by (quick tier) | first signature from the target check | notes |")
print("|---|---|---|---|---|")
for r in rows:
    print("| %s | %s | %s | `%s` | %s |" % r)
