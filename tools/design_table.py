#!/usr/bin/env python3
"""Print the markdown table of seeded changes (DESIGN.md section 10) from /verif/seeded/*/meta.json."""
import json, glob, os
rows = []
for f in sorted(glob.glob("/verif/seeded/*/meta.json"), key=lambda p: (p.split("/")[3].split("-")[0], int(p.split("/")[3].split("-")[1]))):
    m = json.load(open(f))
    caught = sorted({r["check"] for r in m.get("check_runs", []) if r["verdict"] == "CAUGHT"})
    missed = sorted({r["check"] for r in m.get("check_runs", []) if r["verdict"] == "MISSED"} - set(caught))
    first = next((r["first_signatures"][0] for r in m.get("check_runs", []) if r["verdict"] == "CAUGHT" and r["check"] == m["breaks_property"] and r["first_signatures"]), "")
    hist = m.get("history", "")
    rows.append((m["id"], m["needs_to_manifest"].split(":")[0][:95], ", ".join(caught) or "-", first[:70], hist))
print("| seed | change (details: seeded/<seed>/) | caught by (quick tier) | first signature from the target check | notes |")
print("|---|---|---|---|---|")
for r in rows:
    print("| %s | %s | %s | `%s` | %s |" % r)
