#!/usr/bin/env python3
"""Regenerates MANIFEST.json from jobs.py (the single source of truth for what is claimed)."""
import json, os, sys
ROOT = os.path.dirname(os.path.abspath(__file__))
sys.path.insert(0, ROOT)
from jobs import PROPS, MANIFEST_TEXT

checks = []
for pid in sorted(PROPS):
    t = MANIFEST_TEXT[pid]
    checks.append({
        "property_id": pid,
        "quick_cmd": f"./check {pid} --tier quick",
        "thorough_cmd": f"./check {pid} --tier thorough",
        "evidence_file": f"/verif/evidence/{pid}.json",
        "replay_cmd_template": f"./check {pid} --replay {{path}}",
        "engine": "cbmon",
        "level_claimed": {"category": PROPS[pid]["level"], "text": t["text"], "design_ref": t["design_ref"]},
        "level_note": t["note"],
        "technique": t["technique"],
    })
m = {
    "version": 1,
    "setup_cmd": "./setup.sh",
    "hooks": {
        "guard": "circular_buffer_verif",
        "enable": "no hooks exist: every monitor sits at the client boundary (callbacks of the element type, return values, addresses of returned references, a counting/painting global allocator, raw bytes of unoccupied slots); the harness crate path-depends on /repo, so every check recompiles /repo's working tree",
        "baseline_off_cmd": "cd /repo && (cargo nextest run --workspace --no-fail-fast --offline || cargo test --workspace --no-fail-fast --offline)",
        "source_commits": [],
        "add_only": True,
    },
    "engines": [
        {"name": "cbmon", "path": "/verif/harness", "serves_properties": sorted(PROPS),
         "kind_free_text": "Rust harness running the real crate under monitors (instrumented element type + ledger + failpoints, executable model, cross-view observer, relocation and allocation monitors, garbage injection), natively (debug + release), under Miri, AddressSanitizer and valgrind memcheck; orchestrated by /verif/check (python3)"}
    ],
    "checks": checks,
    "not_applicable": [
        {"property_id": "C15", "reason": "borrow/variance/const/auto-trait contracts are decided by rustc at compile time, half of them about programs that must be rejected: there is no execution for a runtime monitor or sanitizer to observe (DESIGN.md section 5)"}
    ],
    "notes": "Known findings protocol: /verif/known_findings.jsonl (six genuine defects found by these checks and repaired with fix: commits in /repo; all entries are 'fixed', none suppresses anything). Verdicts are three-valued; exit 2 = inconclusive.",
}
json.dump(m, open(os.path.join(ROOT, "MANIFEST.json"), "w"), indent=1)
print("wrote MANIFEST.json with", len(checks), "checks")
