//! Terminal and constructor cases: owning iterator, drop of the buffer, From<[T; M]>, FromIterator,
//! new/default/boxed. Each takes an optional failpoint and reports (fired, invocations counted).

use crate::engine::*;
use crate::ops::*;
use crate::tok::*;
use crate::util::Ctx;
use circular_buffer::CircularBuffer;
use std::panic::{catch_unwind, AssertUnwindSafe};

pub fn take_buf<const N: usize, P: Pad>(h: &mut Holder<N, P>) -> Buf<N, P> {
    std::mem::replace(h.buf(), CircularBuffer::new())
}

fn fname(f: Option<(FpKind, u32)>) -> &'static str {
    f.map(|x| x.0.name()).unwrap_or("none")
}

fn fprop(f: Option<FpKind>, default: &'static str) -> &'static str {
    match f {
        Some(FpKind::Drop) => "C05",
        Some(_) => "C06",
        None => default,
    }
}

/// after a terminal action: everything handed out is still alive, then (unless leaks are allowed)
/// nothing may be left alive
fn settle<P: Pad>(
    held: Vec<TokG<P>>,
    ctx: &mut Ctx,
    n: usize,
    opname: &str,
    fired: Option<FpKind>,
    lay: &'static str,
) {
    for t in held.iter() {
        t.validate("held");
    }
    drop(held);
    flush_events(ctx, opname, n, lay, fired);
    let live = ledger_live();
    if P::DROP && live != 0 {
        if fired == Some(FpKind::Drop) {
            ctx.count("allowed_leaks", live);
        } else {
            ctx.violation(
                fprop(fired, "C03"),
                format!("op={}|ncap={}|lay={}|fault={}|leak_at_teardown", opname, ncls(n), lay, fired.map(|k| k.name()).unwrap_or("none")),
                format!("{} element(s) alive after everything was dropped: {:?}; case={}", live, ledger_live_ids(), ctx.cur_case),
            );
        }
    }
    ctx.count("teardowns", 1);
}

/// Consume the buffer through its owning iterator with `script`, then drop the iterator.
/// `clone_at`: take a clone of the iterator after that many steps and check it continues
/// independently.
pub fn into_iter_case<const N: usize, P: Pad>(
    mut h: Holder<N, P>,
    model: &[(u64, u32)],
    script: &[Step],
    clone_at: Option<usize>,
    fault: Option<(FpKind, u32)>,
    ctx: &mut Ctx,
) -> (bool, u32) {
    let obs = observe(h.buf_ref());
    let lay = layout_class(N, measured_layout(h.buf_ref(), &obs), model.len());
    let buf = take_buf(&mut h);
    drop(h);
    let opname = if clone_at.is_some() { "into_iter.clone" } else { "into_iter" };
    let mut held: Vec<TokG<P>> = Vec::with_capacity(model.len() + 2);
    let (mut lo, mut hi) = (0usize, model.len());
    let first_new = ledger_next_id();
    let clone_fault = fault.filter(|f| f.0 == FpKind::Clone);
    let drop_fault = fault.filter(|f| f.0 == FpKind::Drop);
    let mut fp_total = Fp::OFF;
    let mut bad: Vec<(&'static str, &'static str, String)> = Vec::new();
    let r = catch_unwind(AssertUnwindSafe(|| {
        let mut it = buf.into_iter();
        let mut cloned: Option<circular_buffer::IntoIter<N, TokG<P>>> = None;
        for (i, s) in script.iter().enumerate() {
            if clone_at == Some(i) {
                if let Some((k, at)) = clone_fault {
                    fp_arm(k, at);
                }
                cloned = Some(it.clone());
                if clone_fault.is_some() {
                    fp_total = fp_disarm();
                }
            }
            let rem = hi - lo;
            if it.len() != rem || it.size_hint() != (rem, Some(rem)) {
                bad.push(("C08", "wrong_len", format!("step {}: len()={} size_hint={:?} expected {}", i, it.len(), it.size_hint(), rem)));
            }
            let x = apply_step(&mut it, *s);
            let mut w = Win { lo, hi };
            let want = w.step(*s).map(|p| model[p].0);
            lo = w.lo;
            hi = w.hi;
            let got = x.as_ref().map(|t| t.peek("into_iter.yield").0);
            if got != want {
                bad.push(("C08", "wrong_item", format!("step {} {:?}: yielded {:?} expected {:?}", i, s, got, want)));
            }
            if let Some(t) = x {
                held.push(t);
            }
        }
        if clone_at == Some(script.len()) {
            if let Some((k, at)) = clone_fault {
                fp_arm(k, at);
            }
            cloned = Some(it.clone());
            if clone_fault.is_some() {
                fp_total = fp_disarm();
            }
        }
        let rem = hi - lo;
        if it.len() != rem {
            bad.push(("C08", "wrong_len", format!("end: len()={} expected {}", it.len(), rem)));
        }
        // Debug of the iterator touches exactly the remaining elements
        let d = format!("{:?}", it);
        let want_d = format!("{:?}", model[lo..hi].iter().map(|x| x.1).collect::<Vec<u32>>());
        if d != want_d {
            bad.push(("C08", "debug", format!("Debug of IntoIter {} expected {}", d, want_d)));
        }
        if let Some(c) = cloned {
            // the clone yields clones of the elements that were remaining when it was taken
            // (taken before step clone_at; reconstruct the window at that time)
            let (mut clo, mut chi) = (0usize, model.len());
            for s in script.iter().take(clone_at.unwrap()) {
                let mut w = Win { lo: clo, hi: chi };
                w.step(*s);
                clo = w.lo;
                chi = w.hi;
            }
            let got: Vec<TokG<P>> = c.collect();
            let ok = got.len() == chi - clo
                && got.iter().enumerate().all(|(j, t)| {
                    let (id, val) = t.peek("into_iter.clone.yield");
                    id >= first_new && ledger_root(id) == ledger_root(model[clo + j].0) && val == model[clo + j].1
                });
            if !ok {
                bad.push((
                    "C08",
                    "clone_diverges",
                    format!("cloned iterator yielded {:?}, expected clones of {:?}", got.iter().map(|t| t.id).collect::<Vec<_>>(), &model[clo..chi]),
                ));
            }
            drop(got);
        }
        if let Some((k, at)) = drop_fault {
            fp_arm(k, at);
        }
        drop(it);
    }));
    let f_after = fp_disarm();
    if f_after.kind != FpKind::None {
        fp_total = f_after;
    }
    let _ = take_last_panic();
    let fired = if fp_total.fired { Some(fp_total.kind) } else { None };
    for (p, k, d) in bad {
        ctx.violation(p, format!("op={}|ncap={}|lay={}|{}", opname, ncls(N), lay, k), format!("{}; script={} case={}", d, script_str(script), ctx.cur_case));
        if p == "C08" && clone_at.is_none() && k == "wrong_item" {
            ctx.violation("C12", format!("op={}|ncap={}|lay={}|{}", opname, ncls(N), lay, k), format!("case={}", ctx.cur_case));
        }
    }
    if let Err(p) = &r {
        if p.downcast_ref::<Injected>().is_none() {
            ctx.violation(
                "C11",
                format!("op={}|ncap={}|lay={}|unexpected_panic", opname, ncls(N), lay),
                format!("owning iterator panicked; script={} case={}", script_str(script), ctx.cur_case),
            );
        } else {
            ctx.count("faults_fired", 1);
        }
    }
    settle(held, ctx, N, opname, fired, lay);
    (fp_total.fired, fp_total.count)
}

/// Drop the buffer itself (stack or boxed).
pub fn drop_buf_case<const N: usize, P: Pad>(
    mut h: Holder<N, P>,
    model: &[(u64, u32)],
    fault: Option<(FpKind, u32)>,
    ctx: &mut Ctx,
) -> (bool, u32) {
    let obs = observe(h.buf_ref());
    let lay = layout_class(N, measured_layout(h.buf_ref(), &obs), model.len());
    let boxed = h.is_boxed();
    if let Some((k, at)) = fault {
        fp_arm(k, at);
    }
    let panicked = drop_holder(&mut h);
    let fp = fp_disarm();
    let fired = if fp.fired { Some(fp.kind) } else { None };
    if panicked && fired.is_none() {
        ctx.violation(
            "C11",
            format!("op=drop_buffer|ncap={}|lay={}|unexpected_panic", ncls(N), lay),
            format!("dropping the buffer panicked; case={}", ctx.cur_case),
        );
    }
    if fired.is_some() {
        ctx.count("faults_fired", 1);
    }
    settle(Vec::<TokG<P>>::new(), ctx, N, if boxed { "drop_boxed_buffer" } else { "drop_buffer" }, fired, lay);
    (fp.fired, fp.count)
}

/// `CircularBuffer::<N, _>::from([T; M])`
pub fn from_array_case<const N: usize, const M: usize, P: Pad>(
    fault: Option<(FpKind, u32)>,
    ctx: &mut Ctx,
    followups: &[Op],
) -> (bool, u32) {
    let mut vc = 77u32 + M as u32;
    let arr: [TokG<P>; M] = std::array::from_fn(|_| TokG::new(next_val(&mut vc)));
    let src: Vec<(u64, u32)> = arr.iter().map(|t| (t.id, t.val)).collect();
    let lay = if M > N {
        "src_longer"
    } else if M == N {
        "src_equal"
    } else {
        "src_shorter"
    };
    ledger_log_drops(true);
    if let Some((k, at)) = fault {
        fp_arm(k, at);
    }
    let r = catch_unwind(AssertUnwindSafe(move || Buf::<N, P>::from(arr)));
    let fp = fp_disarm();
    let _ = take_last_panic();
    let dropped = ledger_take_drop_log();
    ledger_log_drops(false);
    let fired = if fp.fired { Some(fp.kind) } else { None };
    flush_events(ctx, "from_array", N, lay, fired);
    match r {
        Ok(buf) => {
            let keep = M.min(N);
            let want: Vec<(u64, u32)> = src[M - keep..].to_vec();
            let mut h = Holder::<N, P>::new_inline();
            *h.buf() = buf;
            let obs = observe(h.buf_ref());
            if obs.pairs() != want {
                ctx.violation(
                    "C12",
                    format!("op=from_array|ncap={}|lay={}|wrong_contents", ncls(N), lay),
                    format!("from([..; {}]) for N={}: contents {:?} expected {:?}; case={}", M, N, obs.pairs(), want, ctx.cur_case),
                );
            }
            // the discarded prefix: destroyed exactly once, nothing else destroyed
            let mut d = dropped.clone();
            d.sort_unstable();
            let mut wd: Vec<u64> = src[..M - keep].iter().map(|x| x.0).collect();
            wd.sort_unstable();
            if P::DROP && d != wd {
                ctx.violation(
                    "C12",
                    format!("op=from_array|ncap={}|lay={}|wrong_discards", ncls(N), lay),
                    format!("destroyed during conversion {:?}, expected exactly the discarded prefix {:?}; case={}", d, wd, ctx.cur_case),
                );
            }
            check_views(h.buf_ref(), &obs, ctx, "from_array");
            let mut model = obs.pairs();
            let mut env = Env::<N, P>::new(vc);
            for f in followups {
                step(&mut h, &mut model, f, &mut env, ctx, &MonCfg::LIGHT, None, None);
            }
            teardown(h, ctx, "from_array", fired, false);
        }
        Err(p) => {
            if p.downcast_ref::<Injected>().is_none() {
                ctx.violation(
                    "C11",
                    format!("op=from_array|ncap={}|lay={}|unexpected_panic", ncls(N), lay),
                    format!("from([..; {}]) for N={} panicked; case={}", M, N, ctx.cur_case),
                );
            } else {
                ctx.count("faults_fired", 1);
            }
            settle(Vec::<TokG<P>>::new(), ctx, N, "from_array", fired, lay);
        }
    }
    (fp.fired, fp.count)
}

/// `iter.collect::<CircularBuffer<N, _>>()` with `k` items
pub fn from_iter_case<const N: usize, P: Pad>(
    k: usize,
    hint: u8,
    fault: Option<(FpKind, u32)>,
    ctx: &mut Ctx,
    followups: &[Op],
) -> (bool, u32) {
    let mut vc = 99u32 + k as u32;
    let mut items: Vec<Option<TokG<P>>> = (0..k).map(|_| Some(TokG::new(next_val(&mut vc)))).collect();
    let src: Vec<(u64, u32)> = items.iter().map(|t| t.as_ref().map(|t| (t.id, t.val)).unwrap()).collect();
    let lay = if k > N {
        "src_longer"
    } else if k == N {
        "src_equal"
    } else {
        "src_shorter"
    };
    ledger_log_drops(true);
    if let Some((kk, at)) = fault {
        fp_arm(kk, at);
    }
    let r = catch_unwind(AssertUnwindSafe(|| {
        let it = FeedIter { items: &mut items[..], pos: 0, hint };
        it.collect::<Buf<N, P>>()
    }));
    let fp = fp_disarm();
    let _ = take_last_panic();
    let dropped = ledger_take_drop_log();
    ledger_log_drops(false);
    let fired = if fp.fired { Some(fp.kind) } else { None };
    flush_events(ctx, "from_iter", N, lay, fired);
    match r {
        Ok(buf) => {
            drop(items);
            let keep = k.min(N);
            let want: Vec<(u64, u32)> = src[k - keep..].to_vec();
            let mut h = Holder::<N, P>::new_inline();
            *h.buf() = buf;
            let obs = observe(h.buf_ref());
            if obs.pairs() != want {
                ctx.violation(
                    "C12",
                    format!("op=from_iter|ncap={}|lay={}|wrong_contents", ncls(N), lay),
                    format!("collect of {} items for N={}: contents {:?} expected {:?}; case={}", k, N, obs.pairs(), want, ctx.cur_case),
                );
            }
            let mut d = dropped.clone();
            d.sort_unstable();
            let mut wd: Vec<u64> = src[..k - keep].iter().map(|x| x.0).collect();
            wd.sort_unstable();
            if P::DROP && d != wd {
                ctx.violation(
                    "C12",
                    format!("op=from_iter|ncap={}|lay={}|wrong_discards", ncls(N), lay),
                    format!("destroyed during collect {:?}, expected exactly the discarded prefix {:?}; case={}", d, wd, ctx.cur_case),
                );
            }
            check_views(h.buf_ref(), &obs, ctx, "from_iter");
            let mut model = obs.pairs();
            let mut env = Env::<N, P>::new(vc);
            for f in followups {
                step(&mut h, &mut model, f, &mut env, ctx, &MonCfg::LIGHT, None, None);
            }
            teardown(h, ctx, "from_iter", fired, false);
        }
        Err(p) => {
            drop(items);
            if p.downcast_ref::<Injected>().is_none() {
                ctx.violation(
                    "C11",
                    format!("op=from_iter|ncap={}|lay={}|unexpected_panic", ncls(N), lay),
                    format!("collect of {} items for N={} panicked; case={}", k, N, ctx.cur_case),
                );
            } else {
                ctx.count("faults_fired", 1);
            }
            settle(Vec::<TokG<P>>::new(), ctx, N, "from_iter", fired, lay);
        }
    }
    (fp.fired, fp.count)
}

/// new / default / boxed give an empty buffer that works
pub fn empty_ctor_cases<const N: usize, P: Pad>(ctx: &mut Ctx) {
    for which in 0..3 {
        let name = ["new", "default", "boxed"][which];
        if !ctx.begin_case(|| format!("ctor N={} T={} {}", N, P::NAME, name)) {
            continue;
        }
        ledger_reset();
        let mut h: Holder<N, P> = match which {
            0 => Holder::new_inline(),
            1 => {
                let mut h = Holder::<N, P>::new_inline();
                *h.buf() = Default::default();
                h
            }
            _ => Holder::new_boxed(Some(0xFF)),
        };
        let obs = observe(h.buf_ref());
        if !obs.ids.is_empty() || !h.buf_ref().is_empty() || h.buf_ref().len() != 0 || h.buf_ref().capacity() != N {
            ctx.violation(
                "C12",
                format!("op={}|ncap={}|not_empty", name, ncls(N)),
                format!("{}() is not an empty buffer of capacity {}: len={} case={}", name, N, h.buf_ref().len(), ctx.cur_case),
            );
        }
        check_views(h.buf_ref(), &obs, ctx, name);
        ctx.distinct.insert(crate::util::hash64(&format!("ctor|{}|{}|{}", N, P::NAME, name)));
        let mut model = vec![];
        let mut env = Env::<N, P>::new(5);
        for f in [Op::PushBack, Op::PushFront, Op::ExtendFromSlice(N + 1), Op::PopFront, Op::Clear] {
            step(&mut h, &mut model, &f, &mut env, ctx, &MonCfg::FULL, None, None);
        }
        teardown(h, ctx, name, None, false);
    }
}
