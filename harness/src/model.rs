//! Executable specification written from the documentation: a deque capped at N.
//! Knows nothing about `start`, slices or slots. Arithmetic on indices is done in u128.

use crate::ops::*;

#[derive(Clone, Copy, Debug, PartialEq, Eq)]
pub enum Item {
    /// that very element, with this value
    Id(u64, u32),
    /// a clone made during this call whose root ancestor is this id
    CloneOf(u64, u32),
    /// an element produced by the user closure / iterator during this call (in production order)
    Made,
}

#[derive(Clone, Debug, PartialEq)]
pub enum XRet {
    Unit,
    /// owned element handed back
    Opt(Option<u64>),
    Res(Result<(), u64>),
    /// reference to element
    Ref(Option<u64>),
    /// sequence of those very elements (drain yields, iter ids, slices)
    Ids(Vec<u64>),
    /// sequence of fresh clones of these roots (to_vec / clone)
    Clones(Vec<u64>),
    Text(String),
    Quad(usize, bool, bool, usize),
    Bool(bool),
    /// not judged
    Any,
}

#[derive(Clone, Debug)]
pub struct Expect {
    pub panics: bool,
    pub ret: XRet,
    pub after: Vec<Item>,
}

/// resolve a (Bound, Bound) pair against a length; None = documented panic
pub fn resolve_range(r: Rg, len: usize) -> Option<(usize, usize)> {
    let s: u128 = match r.0 {
        B::I(x) => x as u128,
        B::E(x) => x as u128 + 1,
        B::U => 0,
    };
    let e: u128 = match r.1 {
        B::I(x) => x as u128 + 1,
        B::E(x) => x as u128,
        B::U => len as u128,
    };
    if s > e || e > len as u128 {
        None
    } else {
        Some((s as usize, e as usize))
    }
}

/// Apply a consumption script to positions a..b; returns yielded positions per step and the
/// window that is left.
pub fn run_script(a: usize, b: usize, script: &[Step]) -> (Vec<Option<usize>>, usize, usize) {
    let mut w = Win { lo: a, hi: b };
    let out = script.iter().map(|s| w.step(*s)).collect();
    (out, w.lo, w.hi)
}

fn ids(v: &[(u64, u32)]) -> Vec<Item> {
    v.iter().map(|&(i, x)| Item::Id(i, x)).collect()
}

/// `before`: contents (id, val) front to back. `args`: (id, val) of the elements passed in.
/// `n`: capacity.
pub fn expect(n: usize, before: &[(u64, u32)], op: &Op, args: &[(u64, u32)]) -> Expect {
    let len = before.len();
    let same = || ids(before);
    let ok = |ret: XRet, after: Vec<Item>| Expect { panics: false, ret, after };
    let panic = || Expect { panics: true, ret: XRet::Any, after: ids(before) };
    match op {
        Op::PushBack => {
            let a = args[0];
            if n == 0 {
                ok(XRet::Opt(Some(a.0)), vec![])
            } else if len == n {
                let mut v = ids(&before[1..]);
                v.push(Item::Id(a.0, a.1));
                ok(XRet::Opt(Some(before[0].0)), v)
            } else {
                let mut v = same();
                v.push(Item::Id(a.0, a.1));
                ok(XRet::Opt(None), v)
            }
        }
        Op::PushFront => {
            let a = args[0];
            if n == 0 {
                ok(XRet::Opt(Some(a.0)), vec![])
            } else if len == n {
                let mut v = vec![Item::Id(a.0, a.1)];
                v.extend(ids(&before[..len - 1]));
                ok(XRet::Opt(Some(before[len - 1].0)), v)
            } else {
                let mut v = vec![Item::Id(a.0, a.1)];
                v.extend(same());
                ok(XRet::Opt(None), v)
            }
        }
        Op::TryPushBack => {
            let a = args[0];
            if len == n {
                ok(XRet::Res(Err(a.0)), same())
            } else {
                let mut v = same();
                v.push(Item::Id(a.0, a.1));
                ok(XRet::Res(Ok(())), v)
            }
        }
        Op::TryPushFront => {
            let a = args[0];
            if len == n {
                ok(XRet::Res(Err(a.0)), same())
            } else {
                let mut v = vec![Item::Id(a.0, a.1)];
                v.extend(same());
                ok(XRet::Res(Ok(())), v)
            }
        }
        Op::PopBack => {
            if len == 0 {
                ok(XRet::Opt(None), vec![])
            } else {
                ok(XRet::Opt(Some(before[len - 1].0)), ids(&before[..len - 1]))
            }
        }
        Op::PopFront => {
            if len == 0 {
                ok(XRet::Opt(None), vec![])
            } else {
                ok(XRet::Opt(Some(before[0].0)), ids(&before[1..]))
            }
        }
        Op::Remove(i) => {
            if *i >= len {
                ok(XRet::Opt(None), same())
            } else {
                let mut v = before.to_vec();
                let x = v.remove(*i);
                ok(XRet::Opt(Some(x.0)), ids(&v))
            }
        }
        Op::Swap(i, j) => {
            if *i >= len || *j >= len {
                panic()
            } else {
                let mut v = before.to_vec();
                v.swap(*i, *j);
                ok(XRet::Unit, ids(&v))
            }
        }
        Op::SwapRemoveBack(i) => {
            if *i >= len {
                ok(XRet::Opt(None), same())
            } else {
                let mut v = before.to_vec();
                let x = v.swap_remove(*i);
                ok(XRet::Opt(Some(x.0)), ids(&v))
            }
        }
        Op::SwapRemoveFront(i) => {
            if *i >= len {
                ok(XRet::Opt(None), same())
            } else {
                let mut v = before.to_vec();
                v.swap(*i, 0);
                let x = v.remove(0);
                ok(XRet::Opt(Some(x.0)), ids(&v))
            }
        }
        Op::TruncateBack(l) => {
            if *l >= len {
                ok(XRet::Unit, same())
            } else {
                ok(XRet::Unit, ids(&before[..*l]))
            }
        }
        Op::TruncateFront(l) => {
            if *l >= len {
                ok(XRet::Unit, same())
            } else {
                ok(XRet::Unit, ids(&before[len - *l..]))
            }
        }
        Op::Clear => ok(XRet::Unit, vec![]),
        Op::Extend(_) | Op::ExtendHinted(..) => {
            // owned items: the very elements; keep last n of before ++ args
            let mut v = same();
            for a in args {
                v.push(Item::Id(a.0, a.1));
            }
            let cut = v.len().saturating_sub(n);
            ok(XRet::Unit, v[cut..].to_vec())
        }
        Op::ExtendFromSlice(_) => {
            let mut v = same();
            for a in args {
                v.push(Item::CloneOf(a.0, a.1));
            }
            let cut = v.len().saturating_sub(n);
            ok(XRet::Unit, v[cut..].to_vec())
        }
        Op::Fill => {
            let a = args[0];
            ok(XRet::Unit, vec![Item::CloneOf(a.0, a.1); n])
        }
        Op::FillSpare => {
            let a = args[0];
            let mut v = same();
            while v.len() < n {
                v.push(Item::CloneOf(a.0, a.1));
            }
            ok(XRet::Unit, v)
        }
        Op::FillWith => ok(XRet::Unit, vec![Item::Made; n]),
        Op::FillSpareWith => {
            let mut v = same();
            while v.len() < n {
                v.push(Item::Made);
            }
            ok(XRet::Unit, v)
        }
        Op::Drain(r, script, end) => match resolve_range(*r, len) {
            None => panic(),
            Some((a, b)) => {
                let (y, _, _) = run_script(a, b, script);
                let yielded: Vec<u64> =
                    y.iter().map(|p| p.map(|p| before[p].0).unwrap_or(0)).collect();
                let mut v = before[..a].to_vec();
                v.extend_from_slice(&before[b..]);
                match end {
                    End::Drop => ok(XRet::Ids(yielded), ids(&v)),
                    // contents after a leak are unspecified: judged by the validity predicate
                    End::Forget => Expect { panics: false, ret: XRet::Ids(yielded), after: vec![] },
                }
            }
        },
        Op::MakeContiguous(sort) => {
            let mut v = before.to_vec();
            if *sort {
                v.sort_by_key(|x| x.1); // stable, like slice::sort
            }
            ok(XRet::Ids(before.iter().map(|x| x.0).collect()), ids(&v))
        }
        Op::Write(view, pos, mode) => {
            // which logical position does this view address, if any
            let target: Option<usize> = match view {
                MutView::FrontMut => {
                    if len > 0 {
                        Some(0)
                    } else {
                        None
                    }
                }
                MutView::BackMut => {
                    if len > 0 {
                        Some(len - 1)
                    } else {
                        None
                    }
                }
                MutView::NthBackMut => {
                    if *pos < len {
                        Some(len - 1 - *pos)
                    } else {
                        None
                    }
                }
                _ => {
                    if *pos < len {
                        Some(*pos)
                    } else {
                        None
                    }
                }
            };
            match target {
                None => {
                    if matches!(view, MutView::IndexMut) {
                        panic()
                    } else {
                        ok(XRet::Ref(None), same())
                    }
                }
                Some(t) => {
                    let mut v = same();
                    match mode {
                        WMode::Peek => {}
                        WMode::SetVal(x) => v[t] = Item::Id(before[t].0, *x),
                        WMode::Replace => v[t] = Item::Id(args[0].0, args[0].1),
                    }
                    ok(XRet::Ref(Some(before[t].0)), v)
                }
            }
        }
        Op::CloneFrom(src) => {
            // args = source contents
            let _ = src;
            let v: Vec<Item> = args.iter().map(|a| Item::CloneOf(a.0, a.1)).collect();
            ok(XRet::Unit, v)
        }
        // ---------------- readers ----------------
        Op::Quad => ok(XRet::Quad(len, len == 0, len == n, n), same()),
        Op::Get(i) | Op::NthFront(i) => ok(XRet::Ref(before.get(*i).map(|x| x.0)), same()),
        Op::NthBack(i) => {
            let r = if *i < len { Some(before[len - 1 - *i].0) } else { None };
            ok(XRet::Ref(r), same())
        }
        Op::Front => ok(XRet::Ref(before.first().map(|x| x.0)), same()),
        Op::Back => ok(XRet::Ref(before.last().map(|x| x.0)), same()),
        Op::Index(i) => {
            if *i < len {
                ok(XRet::Ref(Some(before[*i].0)), same())
            } else {
                panic()
            }
        }
        Op::IterCollect(rev) | Op::IterMutCollect(rev) => {
            let mut v: Vec<u64> = before.iter().map(|x| x.0).collect();
            if *rev {
                v.reverse();
            }
            ok(XRet::Ids(v), same())
        }
        Op::RangeCollect(r) | Op::RangeMutCollect(r) => match resolve_range(*r, len) {
            None => panic(),
            Some((a, b)) => ok(XRet::Ids(before[a..b].iter().map(|x| x.0).collect()), same()),
        },
        Op::AsSlices | Op::AsMutSlices => {
            ok(XRet::Ids(before.iter().map(|x| x.0).collect()), same())
        }
        Op::ToVec | Op::CloneBuf => {
            ok(XRet::Clones(before.iter().map(|x| x.0).collect()), same())
        }
        Op::DebugFmt(spec) => {
            let vals: Vec<u32> = before.iter().map(|x| x.1).collect();
            ok(XRet::Text(fmt_spec(&vals, *spec)), same())
        }
        Op::HashSelf | Op::EqSelf | Op::CmpSelf => ok(XRet::Bool(true), same()),
    }
}

pub const FMT_SPECS: usize = 9;
pub fn fmt_spec<T: std::fmt::Debug + ?Sized>(v: &T, spec: usize) -> String {
    match spec {
        0 => format!("{:?}", v),
        1 => format!("{:#?}", v),
        2 => format!("{:8?}", v),
        3 => format!("{:<8?}", v),
        4 => format!("{:^8?}", v),
        5 => format!("{:+?}", v),
        6 => format!("{:x?}", v),
        7 => format!("{:#X?}", v),
        _ => format!("{:08.2?}", v),
    }
}
