//! Constructors and conversions (C12): new/default/boxed, From<[T; M]>, FromIterator, clone,
//! clone_from over all (source layout x destination layout), to_vec, into_iter().collect().

use crate::engine::*;
use crate::faults::for_m;
use crate::ops::*;
use crate::term::*;
use crate::tok::*;
use crate::util::{hash64, Ctx};

const FOL: [Op; 4] = [Op::PushBack, Op::PushFront, Op::PopFront, Op::Clear];

pub fn ctor<const N: usize, P: Pad>(ctx: &mut Ctx) {
    let _ = items_off::<N, P>();
    if ctx.mine_next() {
        empty_ctor_cases::<N, P>(ctx);
    }
    for_m!(M, {
        if M <= 2 * N + 3 {
            let key = hash64(&format!("ctor-array|{}|{}|{}", N, P::NAME, M));
            if ctx.mine_next() && ctx.begin_case(|| format!("ctor N={} T={} from_array M={}", N, P::NAME, M)) {
                ledger_reset();
                from_array_case::<N, M, P>(None, ctx, &FOL);
                ctx.distinct.insert(key);
            }
        }
    });
    for k in 0..=2 * N + 1 {
        let key = hash64(&format!("ctor-iter|{}|{}|{}", N, P::NAME, k));
        if ctx.mine_next() && ctx.begin_case(|| format!("ctor N={} T={} from_iter items={}", N, P::NAME, k)) {
            ledger_reset();
            for hint in 0..5u8 {
                ledger_reset();
                from_iter_case::<N, P>(k, hint, None, ctx, &FOL);
            }
            ctx.distinct.insert(key);
        }
    }
    let starts = if N == 0 { 1 } else { N };
    let mut vc = 5150u32;
    let routes: [u8; 4] = [0, 1, 2, 3];
    for start in 0..starts {
        for len in 0..=N {
            // clone / to_vec / into_iter collect, and independence of the copy in both directions
            for &route in &routes {
                if N == 0 && route != 0 && route != 3 {
                    continue;
                }
                if !ctx.mine_next() {
                    continue;
                }
                let key = hash64(&format!("ctor-copy|{}|{}|{}|{}|{}", N, P::NAME, start, len, route));
                if !ctx.begin_case(|| format!("ctor N={} T={} route={} start={} len={} clone/to_vec/collect", N, P::NAME, route_name(route), start, len)) {
                    continue;
                }
                ledger_reset();
                let (mut h, mut model) = build::<N, P>(route, start, len, Some(0x00), &mut vc);
                let mut env = Env::<N, P>::new(vc);
                for op in [Op::CloneBuf, Op::ToVec] {
                    step(&mut h, &mut model, &op, &mut env, ctx, &MonCfg::FULL, None, None);
                }
                // clone, then drop the ORIGINAL first: the clone must be unaffected
                let first_new = ledger_next_id();
                let c = h.buf_ref().clone();
                let src = model.clone();
                let panicked = drop_holder(&mut h);
                let _ = panicked;
                flush_events(ctx, "clone", N, "copy", None);
                let mut hc = Holder::<N, P>::new_inline();
                *hc.buf() = c;
                let oc = observe(hc.buf_ref());
                let ok = oc.ids.len() == src.len()
                    && oc.ids.iter().zip(src.iter()).all(|(&id, s)| id >= first_new && ledger_root(id) == ledger_root(s.0) && ledger_is_live(id))
                    && oc.vals.iter().zip(src.iter()).all(|(&v, s)| v == s.1);
                if !ok {
                    ctx.violation(
                        "C12",
                        format!("op=clone|ncap={}|copy_depends_on_source", ncls(N)),
                        format!("after dropping the source {:?}, the clone is {:?}; case={}", src, oc.pairs(), ctx.cur_case),
                    );
                }
                for (id, _) in src.iter() {
                    if P::DROP && ledger_is_live(*id) {
                        ctx.violation("C12", format!("op=clone|ncap={}|source_not_destroyed", ncls(N)), format!("source element {} still alive; case={}", id, ctx.cur_case));
                    }
                }
                check_views(hc.buf_ref(), &oc, ctx, "clone");
                // collect through the owning iterator: the very elements, in order
                let want = oc.pairs();
                into_iter_case(hc, &want, &vec![Step::F; want.len() + 1], None, None, ctx);
                ctx.distinct.insert(key);
                vc = env.vc;
            }
            // clone_from over every destination layout x every source layout
            if !ctx.mine_next() {
                continue;
            }
            let key = hash64(&format!("ctor-clone_from|{}|{}|{}|{}", N, P::NAME, start, len));
            for s_start in 0..starts {
                for s_len in 0..=N {
                    for s_route in [0u8, 1, 2] {
                        if N == 0 && s_route != 0 {
                            continue;
                        }
                        let op = Op::CloneFrom(SrcDesc { route: s_route, start: s_start, len: s_len });
                        if !ctx.begin_case(|| format!("ctor N={} T={} dst(start={},len={}) {:?}", N, P::NAME, start, len, op)) {
                            continue;
                        }
                        ledger_reset();
                        let (mut h, mut model) = build::<N, P>((s_start % 3) as u8, start, len, None, &mut vc);
                        let mut env = Env::<N, P>::new(vc);
                        step(&mut h, &mut model, &op, &mut env, ctx, &MonCfg::FULL, None, None);
                        for f in FOL.iter() {
                            step(&mut h, &mut model, f, &mut env, ctx, &MonCfg::LIGHT, None, None);
                        }
                        vc = env.vc;
                        teardown(h, ctx, "clone_from", None, false);
                        ctx.distinct.insert(hash64(&format!("{}|{}|{}|{}", key, s_start, s_len, s_route)));
                    }
                }
            }
        }
    }
}
