//! Instrumented element type, ledger, failpoints, panic bookkeeping.
//!
//! The monitors live here, at the client boundary: the crate under test calls back into
//! `Drop`, `Clone`, `PartialEq`, `PartialOrd/Ord`, `Hash` and `Debug` of the element type.

use std::cell::{Cell, RefCell};
use std::cmp::Ordering;
use std::fmt;
use std::hash::{Hash, Hasher};

pub const MAGIC: u64 = 0x9E37_79B9_7F4A_7C15;

#[inline]
pub fn mix(id: u64, val: u32) -> u64 {
    let mut x = id
        .wrapping_mul(0xBF58_476D_1CE4_E5B9)
        .wrapping_add((val as u64) << 17)
        ^ MAGIC;
    x ^= x >> 29;
    x = x.wrapping_mul(0x94D0_49BB_1331_11EB);
    x ^ (x >> 32)
}

// ---------------------------------------------------------------------------------------------
// Ledger
// ---------------------------------------------------------------------------------------------

#[derive(Clone, Copy, PartialEq, Eq, Debug)]
pub enum St {
    Live,
    Dead,
    /// written off after an allowed leak (destructor panic / leaked drain); may still be destroyed
    /// once later, must never be observed in a buffer again
    Leaked,
}

/// epoch value of tokens the harness holds outside any buffer under test
pub const PINNED: u32 = u32::MAX;

#[derive(Clone, Copy, Debug)]
pub struct Rec {
    pub st: St,
    pub drops: u8,
    pub val: u32,
    pub parent: u64, // 0 = none
    pub epoch: u32,  // op sequence number at creation
}

#[derive(Clone, Debug, PartialEq, Eq)]
pub enum Ev {
    DoubleDrop(u64),
    StaleTouched(u64, &'static str),
    GarbageTouched(u64, u64, &'static str),
}

pub struct Ledger {
    /// index = id - base (index 0 unused). `base` grows at every reset, so ids are never reused
    /// within a process: a stale byte-copy of a token from an earlier case can never be mistaken
    /// for a live token of the current case.
    pub recs: Vec<Rec>,
    pub base: u64,
    pub live: u64,
    pub pinned: u64,
    pub created: u64,
    pub destroyed: u64,
    pub touches: u64,
    pub epoch: u32,
    pub events: Vec<Ev>,
    pub drop_log: Vec<u64>, // ids destroyed since last `take_drop_log`
    pub log_drops: bool,
    /// rolling digest of every client-boundary event (creation, destruction, touch with site,
    /// value edits, scalars fed by the harness): the canonical trace compared by C16/C18
    pub digest: u64,
    /// tokens created since the epoch (= operation) started: runaway guard
    pub epoch_created: u64,
}

#[inline]
fn dmix(d: u64, a: u64, b: u64) -> u64 {
    let x = (d.rotate_left(7) ^ a).wrapping_mul(0x9E37_79B9_7F4A_7C15) ^ b.wrapping_mul(0xC2B2_AE3D_27D4_EB4F);
    x ^ (x >> 29)
}

/// feed a scalar observed by the harness (return values, lengths, flags) into the trace digest
pub fn trace_num(tag: u64, x: u64) {
    with_ledger(|l| l.digest = dmix(l.digest, tag, x));
}
pub fn trace_str(tag: u64, s: &str) {
    let h = crate::util::hash64(s);
    with_ledger(|l| l.digest = dmix(l.digest, tag, h));
}
pub fn trace_digest() -> u64 {
    with_ledger(|l| l.digest)
}
fn site_tag(s: &str) -> u64 {
    // cheap, stable
    let b = s.as_bytes();
    let mut h = 1469598103934665603u64;
    for c in b {
        h = (h ^ *c as u64).wrapping_mul(1099511628211);
    }
    h
}

impl Ledger {
    #[inline]
    pub fn idx(&self, id: u64) -> Option<usize> {
        let i = id.checked_sub(self.base)?;
        if i == 0 || i >= self.recs.len() as u64 {
            None
        } else {
            Some(i as usize)
        }
    }
    fn new() -> Self {
        let mut recs = Vec::with_capacity(1 << 16);
        recs.push(Rec { st: St::Dead, drops: 0, val: 0, parent: 0, epoch: 0 });
        Ledger {
            recs,
            base: 0,
            live: 0,
            pinned: 0,
            created: 0,
            destroyed: 0,
            touches: 0,
            epoch: 0,
            events: Vec::new(),
            drop_log: Vec::new(),
            log_drops: false,
            digest: 0,
            epoch_created: 0,
        }
    }
}

thread_local! {
    pub static LEDGER: RefCell<Ledger> = RefCell::new(Ledger::new());
}

pub fn with_ledger<R>(f: impl FnOnce(&mut Ledger) -> R) -> R {
    let _s = crate::alloc::Suspend::new();
    LEDGER.with(|l| f(&mut l.borrow_mut()))
}

/// Forget everything: new case. Keeps capacity.
pub fn ledger_reset() {
    with_ledger(|l| {
        l.base += l.recs.len() as u64;
        l.recs.truncate(1);
        l.epoch_created = 0;
        l.live = 0;
        l.pinned = 0;
        l.epoch = 0;
        l.events.clear();
        l.drop_log.clear();
    });
    FP.with(|f| f.set(Fp::OFF));
}

/// live tokens, not counting the ones the harness pinned for itself
pub fn ledger_live() -> u64 {
    with_ledger(|l| l.live - l.pinned.min(l.live))
}
pub fn ledger_next_id() -> u64 {
    with_ledger(|l| l.base + l.recs.len() as u64)
}
pub fn ledger_set_epoch(e: u32) {
    with_ledger(|l| {
        l.epoch = e;
        l.epoch_created = 0;
    })
}

/// payload of the panic raised when one operation creates an absurd number of elements (a loop
/// around a user callback that never ends)
pub struct Runaway;
pub const RUNAWAY_LIMIT: u64 = 3_000_000;
pub fn ledger_epoch() -> u32 {
    with_ledger(|l| l.epoch)
}
pub fn ledger_state(id: u64) -> Option<Rec> {
    with_ledger(|l| l.idx(id).map(|i| l.recs[i]))
}
pub fn ledger_is_live(id: u64) -> bool {
    ledger_state(id).map(|r| r.st == St::Live).unwrap_or(false)
}
pub fn ledger_take_events() -> Vec<Ev> {
    with_ledger(|l| std::mem::take(&mut l.events))
}
pub fn ledger_root(id: u64) -> u64 {
    with_ledger(|l| {
        let mut cur = id;
        loop {
            match l.idx(cur).map(|i| l.recs[i]) {
                // a parent always has a smaller id; anything else comes from garbage bytes that were
                // cloned (a violation reported elsewhere) and must not send this walk in circles
                Some(r) if r.parent != 0 && r.parent < cur => cur = r.parent,
                _ => return cur,
            }
        }
    })
}
pub fn ledger_parent(id: u64) -> u64 {
    with_ledger(|l| l.idx(id).map(|i| l.recs[i].parent).unwrap_or(0))
}
pub fn ledger_live_ids() -> Vec<u64> {
    with_ledger(|l| {
        l.recs
            .iter()
            .enumerate()
            .skip(1)
            .filter(|(_, r)| r.st == St::Live)
            .map(|(i, _)| l.base + i as u64)
            .collect()
    })
}
pub fn ledger_counters() -> (u64, u64, u64) {
    with_ledger(|l| (l.created, l.destroyed, l.touches))
}
pub fn ledger_log_drops(on: bool) {
    with_ledger(|l| {
        l.log_drops = on;
        l.drop_log.clear();
    })
}
pub fn ledger_take_drop_log() -> Vec<u64> {
    with_ledger(|l| std::mem::take(&mut l.drop_log))
}

fn ledger_new_id(val: u32, parent: u64) -> u64 {
    let runaway = with_ledger(|l| {
        l.epoch_created += 1;
        l.epoch_created == RUNAWAY_LIMIT
    });
    if runaway && !std::thread::panicking() {
        LAST_PANIC.with(|p| *p.borrow_mut() = Some(("runaway: one call created more than 3e6 elements through user callbacks".to_string(), "harness:runaway_guard".to_string())));
        std::panic::resume_unwind(Box::new(Runaway));
    }
    with_ledger(|l| {
        let id = l.base + l.recs.len() as u64;
        let epoch = l.epoch;
        l.recs.push(Rec { st: St::Live, drops: 0, val, parent, epoch });
        l.live += 1;
        l.created += 1;
        l.digest = dmix(l.digest, 0xC0 ^ (parent << 8), id ^ ((val as u64) << 40));
        id
    })
}

// ---------------------------------------------------------------------------------------------
// Failpoints
// ---------------------------------------------------------------------------------------------

#[derive(Clone, Copy, PartialEq, Eq, Debug, Hash)]
pub enum FpKind {
    None,
    Drop,
    Clone,
    Eq,
    Cmp,
    Hash,
    Fmt,
    Closure,
    IterNext,
}

impl FpKind {
    pub fn name(self) -> &'static str {
        match self {
            FpKind::None => "none",
            FpKind::Drop => "drop",
            FpKind::Clone => "clone",
            FpKind::Eq => "eq",
            FpKind::Cmp => "cmp",
            FpKind::Hash => "hash",
            FpKind::Fmt => "fmt",
            FpKind::Closure => "closure",
            FpKind::IterNext => "iter_next",
        }
    }
}

#[derive(Clone, Copy, Debug)]
pub struct Fp {
    pub kind: FpKind,
    pub count: u32,   // invocations of `kind` seen since arming
    pub fire_at: u32, // 1-based; 0 = never (counting only)
    pub fired: bool,
}

impl Fp {
    pub const OFF: Fp = Fp { kind: FpKind::None, count: 0, fire_at: 0, fired: false };
}

thread_local! {
    pub static FP: Cell<Fp> = const { Cell::new(Fp::OFF) };
}

/// Payload of an injected panic.
pub struct Injected(pub FpKind);

pub fn fp_arm(kind: FpKind, fire_at: u32) {
    FP.with(|f| f.set(Fp { kind, count: 0, fire_at, fired: false }));
}
pub fn fp_disarm() -> Fp {
    FP.with(|f| f.replace(Fp::OFF))
}

/// Called from callbacks. Panics (quietly, no hook) when the armed failpoint is reached.
#[inline]
pub fn fp_hit(kind: FpKind) {
    let fire = FP.with(|f| {
        let mut fp = f.get();
        if fp.kind != kind {
            return false;
        }
        fp.count += 1;
        let fire = fp.fire_at != 0 && fp.count == fp.fire_at && !fp.fired;
        if fire {
            fp.fired = true;
        }
        f.set(fp);
        fire
    });
    if fire && !std::thread::panicking() {
        let _s = crate::alloc::Suspend::new();
        std::panic::resume_unwind(Box::new(Injected(kind)));
    }
}

// ---------------------------------------------------------------------------------------------
// Panic bookkeeping (for panics raised by the crate itself)
// ---------------------------------------------------------------------------------------------

thread_local! {
    pub static LAST_PANIC: RefCell<Option<(String, String)>> = const { RefCell::new(None) };
}

pub fn install_panic_hook(verbose: bool) {
    std::panic::set_hook(Box::new(move |info| {
        let _s = crate::alloc::Suspend::new();
        let msg = if let Some(s) = info.payload().downcast_ref::<&str>() {
            s.to_string()
        } else if let Some(s) = info.payload().downcast_ref::<String>() {
            s.clone()
        } else {
            "<non-string payload>".to_string()
        };
        let loc = info
            .location()
            .map(|l| format!("{}:{}", l.file(), l.line()))
            .unwrap_or_default();
        if verbose || HARNESS_BUG.with(|h| h.get()) {
            eprintln!("panic: {} at {}", msg, loc);
        }
        LAST_PANIC.with(|p| *p.borrow_mut() = Some((msg, loc)));
    }));
}

thread_local! {
    pub static HARNESS_BUG: Cell<bool> = const { Cell::new(false) };
}

pub fn take_last_panic() -> Option<(String, String)> {
    LAST_PANIC.with(|p| p.borrow_mut().take())
}

// ---------------------------------------------------------------------------------------------
// Padding types (vary size / alignment / heap ownership)
// ---------------------------------------------------------------------------------------------

/// The tail of the element. It decides size, alignment, heap ownership and - because the
/// destructor hook lives here and not on `TokG` itself - whether the element type has drop glue at
/// all (`mem::needs_drop`): a crate fast path for "plain data" types is only reachable with `NoDrop`.
pub trait Pad: 'static {
    const NAME: &'static str;
    const HEAP: bool;
    /// does the element run a destructor the ledger can see?
    const DROP: bool;
    fn new(id: u64, val: u32) -> Self;
    fn set(&mut self, _id: u64, _val: u32) {}
}

/// Destructor hook: a self-validating copy of (id, val) whose `Drop` reports to the ledger.
#[repr(C)]
pub struct Hook {
    pub id: u64,
    pub hchk: u64,
    pub val: u32,
    pub _r: u32,
}

impl Hook {
    fn make(id: u64, val: u32) -> Hook {
        Hook { id, hchk: mix(id, val) ^ 0x5555_AAAA_5555_AAAA, val, _r: 0 }
    }
}

impl Drop for Hook {
    fn drop(&mut self) {
        let (id, val, chk) = (self.id, self.val, self.hchk ^ 0x5555_AAAA_5555_AAAA);
        let ok = with_ledger(|l| {
            l.touches += 1;
            l.digest = dmix(l.digest, 0xD0, id ^ ((val as u64) << 40));
            let i = match l.idx(id) {
                Some(i) if chk == mix(id, val) => i,
                _ => {
                    l.events.push(Ev::GarbageTouched(id, chk, "drop"));
                    return false;
                }
            };
            let log = l.log_drops;
            let r = &mut l.recs[i];
            r.drops = r.drops.saturating_add(1);
            if r.st == St::Dead {
                l.events.push(Ev::DoubleDrop(id));
                return false;
            }
            let pinned = r.epoch == PINNED;
            if r.st == St::Live {
                l.live -= 1;
                if pinned {
                    l.pinned = l.pinned.saturating_sub(1);
                }
            }
            r.st = St::Dead;
            l.destroyed += 1;
            if log {
                l.drop_log.push(id);
            }
            true
        });
        if ok {
            // the value counts as dropped even if its destructor panics
            fp_hit(FpKind::Drop);
        }
    }
}

impl Pad for Hook {
    const NAME: &'static str = "tok48";
    const HEAP: bool = false;
    const DROP: bool = true;
    fn new(id: u64, val: u32) -> Self {
        Hook::make(id, val)
    }
    fn set(&mut self, id: u64, val: u32) {
        self.id = id;
        self.val = val;
        self.hchk = mix(id, val) ^ 0x5555_AAAA_5555_AAAA;
    }
}

/// no destructor at all: `mem::needs_drop::<TokG<NoDrop>>()` is false. The ledger cannot see the
/// end of such an element, so liveness/leak oracles are off for it; identity oracles are not.
impl Pad for () {
    const NAME: &'static str = "nodrop24";
    const HEAP: bool = false;
    const DROP: bool = false;
    fn new(_id: u64, _val: u32) -> Self {}
}

#[repr(C, align(32))]
pub struct Pad32 {
    pub hook: Hook,
    pub fill: [u8; 40],
}
impl Pad for Pad32 {
    const NAME: &'static str = "wide96a32";
    const HEAP: bool = false;
    const DROP: bool = true;
    fn new(id: u64, val: u32) -> Self {
        Pad32 { hook: Hook::make(id, val), fill: [0xA5; 40] }
    }
    fn set(&mut self, id: u64, val: u32) {
        self.hook.set(id, val);
    }
}

pub struct HeapPad {
    pub hook: Hook,
    pub heap: Box<u32>,
}
impl Pad for HeapPad {
    const NAME: &'static str = "heaptok";
    const HEAP: bool = true;
    const DROP: bool = true;
    fn new(id: u64, val: u32) -> Self {
        let _s = crate::alloc::Suspend::new();
        HeapPad { hook: Hook::make(id, val), heap: Box::new(0xB0B0_B0B0) }
    }
    fn set(&mut self, id: u64, val: u32) {
        self.hook.set(id, val);
    }
}

// ---------------------------------------------------------------------------------------------
// The element
// ---------------------------------------------------------------------------------------------

#[repr(C)]
pub struct TokG<P: Pad> {
    pub id: u64,
    pub chk: u64,
    pub val: u32,
    pub _r: u32,
    pub pad: P,
}

pub type Tok = TokG<Hook>;

impl<P: Pad> TokG<P> {
    pub fn new(val: u32) -> Self {
        let id = ledger_new_id(val, 0);
        TokG { id, chk: mix(id, val), val, _r: 0, pad: P::new(id, val) }
    }

    /// a token the harness keeps for itself (garbage images, comparison operands)
    pub fn new_pinned(val: u32) -> Self {
        let t = Self::new(val);
        with_ledger(|l| {
            let i = l.idx(t.id).unwrap();
            l.recs[i].epoch = PINNED;
            l.pinned += 1;
        });
        t
    }

    /// Validate and read (id, val). Every harness-side read of an element goes through here.
    #[inline]
    pub fn peek(&self, site: &'static str) -> (u64, u32) {
        self.validate(site);
        (self.id, self.val)
    }

    #[inline]
    pub fn set_val(&mut self, val: u32) {
        self.validate("set_val");
        self.val = val;
        self.chk = mix(self.id, val);
        self.pad.set(self.id, val);
        with_ledger(|l| {
            if let Some(i) = l.idx(self.id) {
                l.recs[i].val = val;
            }
        });
    }

    /// true if the bytes look like a token the ledger knows and that is live
    #[inline]
    pub fn validate(&self, site: &'static str) -> bool {
        let (id, val, chk) = (self.id, self.val, self.chk);
        with_ledger(|l| {
            l.touches += 1;
            l.digest = dmix(l.digest, site_tag(site), id ^ ((val as u64) << 40));
            let i = match l.idx(id) {
                Some(i) if chk == mix(id, val) => i,
                _ => {
                    l.events.push(Ev::GarbageTouched(id, chk, site));
                    return false;
                }
            };
            if l.recs[i].st == St::Dead {
                l.events.push(Ev::StaleTouched(id, site));
                return false;
            }
            true
        })
    }
}

impl<P: Pad> Clone for TokG<P> {
    fn clone(&self) -> Self {
        self.validate("clone");
        fp_hit(FpKind::Clone);
        let id = ledger_new_id(self.val, self.id);
        TokG { id, chk: mix(id, self.val), val: self.val, _r: 0, pad: P::new(id, self.val) }
    }
}

impl<P: Pad> PartialEq for TokG<P> {
    fn eq(&self, other: &Self) -> bool {
        self.validate("eq.lhs");
        other.validate("eq.rhs");
        fp_hit(FpKind::Eq);
        self.val == other.val
    }
}
impl<P: Pad> Eq for TokG<P> {}

impl<P: Pad> PartialOrd for TokG<P> {
    fn partial_cmp(&self, other: &Self) -> Option<Ordering> {
        self.validate("partial_cmp.lhs");
        other.validate("partial_cmp.rhs");
        fp_hit(FpKind::Cmp);
        Some(self.val.cmp(&other.val))
    }
}
impl<P: Pad> Ord for TokG<P> {
    fn cmp(&self, other: &Self) -> Ordering {
        self.validate("cmp.lhs");
        other.validate("cmp.rhs");
        fp_hit(FpKind::Cmp);
        self.val.cmp(&other.val)
    }
}

impl<P: Pad> Hash for TokG<P> {
    fn hash<H: Hasher>(&self, state: &mut H) {
        self.validate("hash");
        fp_hit(FpKind::Hash);
        self.val.hash(state);
    }
}

impl<P: Pad> fmt::Debug for TokG<P> {
    fn fmt(&self, f: &mut fmt::Formatter<'_>) -> fmt::Result {
        self.validate("fmt");
        fp_hit(FpKind::Fmt);
        // delegate so that formatter flags are honoured like for a plain integer
        fmt::Debug::fmt(&self.val, f)
    }
}
