//! Counting / painting global allocator.
//!
//! * counts alloc/realloc/dealloc while the current thread is "inside a crate operation"
//!   (`Scope`) and not inside a harness callback (`Suspend`);
//! * optionally paints fresh allocations with a byte pattern so that `boxed()` storage starts
//!   out with 0x00 / 0xFF / 0x5A in its unoccupied slots (C04).

use std::alloc::{GlobalAlloc, Layout, System};
use std::cell::Cell;
use std::sync::atomic::{AtomicU32, Ordering};

pub struct Mon;

/// 0 = do not paint; otherwise paint with (PAINT & 0xFF) where 0x100 flag means "paint enabled"
pub static PAINT: AtomicU32 = AtomicU32::new(0);

thread_local! {
    static IN_OP: Cell<bool> = const { Cell::new(false) };
    static SUSPEND: Cell<u32> = const { Cell::new(0) };
    static ALLOCS: Cell<u32> = const { Cell::new(0) };
    static DEALLOCS: Cell<u32> = const { Cell::new(0) };
    static REALLOCS: Cell<u32> = const { Cell::new(0) };
    static LAST_SIZE: Cell<usize> = const { Cell::new(0) };
}

#[inline]
fn counting() -> bool {
    // try_with: the allocator may be called during TLS teardown
    IN_OP.try_with(|c| c.get()).unwrap_or(false) && SUSPEND.try_with(|c| c.get() == 0).unwrap_or(false)
}

unsafe impl GlobalAlloc for Mon {
    unsafe fn alloc(&self, layout: Layout) -> *mut u8 {
        let p = System.alloc(layout);
        if counting() {
            let _ = ALLOCS.try_with(|c| c.set(c.get() + 1));
            let _ = LAST_SIZE.try_with(|c| c.set(layout.size()));
        }
        let paint = PAINT.load(Ordering::Relaxed);
        if paint & 0x100 != 0 && !p.is_null() {
            std::ptr::write_bytes(p, (paint & 0xFF) as u8, layout.size());
        }
        p
    }
    unsafe fn dealloc(&self, ptr: *mut u8, layout: Layout) {
        if counting() {
            let _ = DEALLOCS.try_with(|c| c.set(c.get() + 1));
        }
        System.dealloc(ptr, layout)
    }
    unsafe fn alloc_zeroed(&self, layout: Layout) -> *mut u8 {
        if counting() {
            let _ = ALLOCS.try_with(|c| c.set(c.get() + 1));
            let _ = LAST_SIZE.try_with(|c| c.set(layout.size()));
        }
        System.alloc_zeroed(layout)
    }
    unsafe fn realloc(&self, ptr: *mut u8, layout: Layout, new_size: usize) -> *mut u8 {
        if counting() {
            let _ = REALLOCS.try_with(|c| c.set(c.get() + 1));
        }
        System.realloc(ptr, layout, new_size)
    }
}

/// While alive, allocator events on this thread are not attributed to the crate.
pub struct Suspend;
impl Suspend {
    #[inline]
    pub fn new() -> Self {
        let _ = SUSPEND.try_with(|c| c.set(c.get() + 1));
        Suspend
    }
}
impl Drop for Suspend {
    #[inline]
    fn drop(&mut self) {
        let _ = SUSPEND.try_with(|c| c.set(c.get().saturating_sub(1)));
    }
}

#[derive(Clone, Copy, Debug, Default, PartialEq, Eq)]
pub struct Counts {
    pub allocs: u32,
    pub deallocs: u32,
    pub reallocs: u32,
    pub last_size: usize,
}

/// Start attributing allocator events to the crate operation.
pub fn scope_begin() {
    ALLOCS.with(|c| c.set(0));
    DEALLOCS.with(|c| c.set(0));
    REALLOCS.with(|c| c.set(0));
    LAST_SIZE.with(|c| c.set(0));
    IN_OP.with(|c| c.set(true));
}
#[inline]
pub fn scope_resume() {
    IN_OP.with(|c| c.set(true));
}
#[inline]
pub fn scope_pause() {
    IN_OP.with(|c| c.set(false));
}
pub fn scope_end() -> Counts {
    IN_OP.with(|c| c.set(false));
    Counts {
        allocs: ALLOCS.with(|c| c.get()),
        deallocs: DEALLOCS.with(|c| c.get()),
        reallocs: REALLOCS.with(|c| c.get()),
        last_size: LAST_SIZE.with(|c| c.get()),
    }
}

pub fn set_paint(p: Option<u8>) {
    match p {
        Some(b) => PAINT.store(0x100 | b as u32, Ordering::Relaxed),
        None => PAINT.store(0, Ordering::Relaxed),
    }
}
