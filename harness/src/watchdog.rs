//! Bounded-progress watchdog for the "no call fails to terminate" clause of C11.
//!
//! A monitor thread reads the process' CPU time from /proc/self/stat. If one case has consumed
//! more than the limit of CPU seconds (a normal case costs well under a millisecond, so the margin
//! is >= 10^4) it is reported as a hang and the process exits with code 4. CPU time, not wall
//! clock: a loaded machine cannot produce it.

use std::sync::atomic::{AtomicU64, Ordering};
use std::sync::Mutex;

pub static CASE_SEQ: AtomicU64 = AtomicU64::new(0);
pub static CASE_DESC: Mutex<String> = Mutex::new(String::new());

#[inline]
pub fn note_case(desc: &str) {
    CASE_SEQ.fetch_add(1, Ordering::Relaxed);
    if let Ok(mut g) = CASE_DESC.try_lock() {
        g.clear();
        g.push_str(desc);
    }
}

fn cpu_ticks() -> Option<u64> {
    let s = std::fs::read_to_string("/proc/self/stat").ok()?;
    let rest = &s[s.rfind(')')? + 2..];
    let f: Vec<&str> = rest.split_whitespace().collect();
    // fields after the command: state(0) ... utime is field 14 overall => index 11 here, stime 12
    Some(f.get(11)?.parse::<u64>().ok()? + f.get(12)?.parse::<u64>().ok()?)
}

pub fn start(limit_cpu_s: u64) {
    if cfg!(miri) || limit_cpu_s == 0 {
        return;
    }
    let _ = std::thread::Builder::new().name("watchdog".into()).spawn(move || {
        let hz = 100u64; // USER_HZ on Linux
        let mut last_seq = CASE_SEQ.load(Ordering::Relaxed);
        let mut base = cpu_ticks().unwrap_or(0);
        loop {
            std::thread::sleep(std::time::Duration::from_millis(250));
            let seq = CASE_SEQ.load(Ordering::Relaxed);
            let now = match cpu_ticks() {
                Some(t) => t,
                None => return,
            };
            if seq != last_seq {
                last_seq = seq;
                base = now;
                continue;
            }
            if now.saturating_sub(base) > limit_cpu_s * hz {
                let d = CASE_DESC.lock().map(|g| g.clone()).unwrap_or_default();
                println!("HANG cpu_s={} case={}", (now - base) / hz, d);
                std::process::exit(4);
            }
        }
    });
}
