//! Fault enumeration (C05, C06): for every state x operation that runs user code, a dry run counts
//! the invocations U of the user callback inside the call, then U re-executions make the k-th one
//! panic (once), k = 1..=U. After each caught panic: validity of the buffer, follow-up operations
//! under the re-synchronised model, teardown with ledger reconciliation.

use crate::engine::*;
use crate::ops::*;
use crate::random::gen_op;
use crate::term::*;
use crate::tok::*;
use crate::util::{hash64, Ctx, Rng};

#[derive(Clone, Debug)]
pub enum Act {
    Op(Op),
    DropBuf,
    IntoIter(Vec<Step>, Option<usize>),
}

impl Act {
    fn name(&self) -> &'static str {
        match self {
            Act::Op(o) => o.name(),
            Act::DropBuf => "drop_buffer",
            Act::IntoIter(_, None) => "into_iter",
            Act::IntoIter(_, Some(_)) => "into_iter.clone",
        }
    }
}

fn fault_acts(n: usize, len: usize, kind: FpKind, thorough: bool) -> Vec<Act> {
    let mut v: Vec<Act> = Vec::new();
    let o = |v: &mut Vec<Act>, op: Op| v.push(Act::Op(op));
    let maxk = 2 * n + 1;
    match kind {
        FpKind::Drop => {
            for l in 0..len {
                o(&mut v, Op::TruncateBack(l));
                o(&mut v, Op::TruncateFront(l));
            }
            o(&mut v, Op::Clear);
            o(&mut v, Op::Fill);
            o(&mut v, Op::FillWith);
            for k in 1..=maxk {
                o(&mut v, Op::ExtendFromSlice(k));
                o(&mut v, Op::Extend(k));
            }
            if n > 0 {
                for s in 0..n {
                    for l in [0, 1, n / 2, n] {
                        if l <= n && (thorough || s == 0 || s == n - 1) {
                            o(&mut v, Op::CloneFrom(SrcDesc { route: 0, start: s, len: l }));
                        }
                    }
                }
            }
            for a in 0..=len {
                for b in a..=len {
                    let sel = b - a;
                    let mut scripts = scripts_upto(if thorough { sel.min(3) } else { sel.min(2) });
                    scripts.push(vec![Step::N(1)]);
                    scripts.push(vec![Step::NB(1)]);
                    for s in scripts {
                        let mut w = Win { lo: a, hi: b };
                        for st in &s {
                            w.step(*st);
                        }
                        if w.len() > 0 {
                            o(&mut v, Op::Drain((B::I(a), B::E(b)), s, End::Drop));
                        }
                    }
                }
            }
            v.push(Act::DropBuf);
            for s in scripts_upto(len.min(if thorough { 3 } else { 2 })) {
                if s.len() < len {
                    v.push(Act::IntoIter(s, None));
                }
            }
        }
        FpKind::Clone => {
            for k in 1..=maxk {
                o(&mut v, Op::ExtendFromSlice(k));
            }
            o(&mut v, Op::Fill);
            o(&mut v, Op::FillSpare);
            o(&mut v, Op::CloneBuf);
            o(&mut v, Op::ToVec);
            if n > 0 {
                for s in 0..n {
                    for l in 1..=n {
                        if thorough || n <= 4 || l == n || l == 1 {
                            o(&mut v, Op::CloneFrom(SrcDesc { route: 0, start: s, len: l }));
                        }
                    }
                }
            }
            for c in 0..=len.min(2) {
                v.push(Act::IntoIter(vec![Step::F; c], Some(c)));
            }
        }
        FpKind::Closure => {
            o(&mut v, Op::FillWith);
            o(&mut v, Op::FillSpareWith);
        }
        FpKind::IterNext => {
            for k in 0..=maxk {
                o(&mut v, Op::Extend(k));
                o(&mut v, Op::ExtendHinted(k, 1 + (k % 3) as u8));
            }
        }
        FpKind::Eq => o(&mut v, Op::EqSelf),
        FpKind::Cmp => {
            o(&mut v, Op::CmpSelf);
            o(&mut v, Op::MakeContiguous(true));
        }
        FpKind::Hash => o(&mut v, Op::HashSelf),
        FpKind::Fmt => {
            o(&mut v, Op::DebugFmt(0));
            o(&mut v, Op::DebugFmt(1));
        }
        FpKind::None => {}
    }
    v
}

pub const KINDS: [FpKind; 8] = [
    FpKind::Drop,
    FpKind::Clone,
    FpKind::Closure,
    FpKind::IterNext,
    FpKind::Eq,
    FpKind::Cmp,
    FpKind::Hash,
    FpKind::Fmt,
];

const FIXED_FOLLOWUPS: [Op; 8] = [
    Op::Quad,
    Op::PushBack,
    Op::PushFront,
    Op::ExtendFromSlice(2),
    Op::PopFront,
    Op::MakeContiguous(false),
    Op::TruncateBack(1),
    Op::PushBack,
];

fn run_one<const N: usize, P: Pad>(
    ctx: &mut Ctx,
    route: u8,
    start: usize,
    len: usize,
    act: &Act,
    fault: (FpKind, u32),
    vc0: u32,
    fseed: u64,
) -> (bool, u32) {
    let lean = ctx.args.flag("lean");
    ledger_reset();
    let mut vcv = vc0;
    let vc = &mut vcv;
    let (mut h, mut model) = build::<N, P>(route, start, len, Some(0xFF), vc);
    let obs = observe(h.buf_ref());
    if obs.pairs() != model {
        ctx.violation("C01", format!("op=build:{}|ncap={}|wrong_contents", route_name(route), ncls(N)), format!("builder mismatch; case={}", ctx.cur_case));
        std::mem::forget(h);
        return (false, 0);
    }
    if let Some((s, l)) = measured_layout(h.buf_ref(), &obs) {
        ctx.layouts.insert(hash64(&format!("{}|{}|{}|{}", N, P::NAME, s, l)));
    }
    match act {
        Act::Op(op) => {
            let mut env = Env::<N, P>::new(*vc);
            let out = step(&mut h, &mut model, op, &mut env, ctx, &MonCfg::main(lean), Some(fault), Some(&obs));
            let fired = out.injected;
            // the buffer must keep behaving normally
            let prop: &'static str = if fault.0 == FpKind::Drop { "C05" } else { "C06" };
            if fired {
                ctx.attribute = Some(prop);
            }
            for f in FIXED_FOLLOWUPS.iter().take(if lean { 4 } else { 8 }) {
                if !lean {
                    control_step(&h, &model, f, ctx, &MonCfg::FULL);
                }
                step(&mut h, &mut model, f, &mut env, ctx, &MonCfg::main(lean), None, None);
            }
            let mut rng = Rng::new(fseed);
            for _ in 0..(if lean { 2 } else { 8 }) {
                let f = gen_op(&mut rng, N, model.len(), false);
                if !lean {
                    control_step(&h, &model, &f, ctx, &MonCfg::LIGHT);
                }
                step(&mut h, &mut model, &f, &mut env, ctx, &MonCfg::LIGHT, None, None);
            }
            *vc = env.vc;
            // if attribution was switched off (a fault-independent defect showed up in a control
            // execution) the teardown is not blamed on the fault either
            let fk = if fired && ctx.attribute.is_some() { Some(fault.0) } else { None };
            let leak_ok = fired && fault.0 == FpKind::Drop;
            teardown(h, ctx, op.name(), fk, leak_ok);
            ctx.attribute = None;
            (fired, out.fp_count)
        }
        Act::DropBuf => drop_buf_case(h, &model, Some(fault), ctx),
        Act::IntoIter(script, clone_at) => into_iter_case(h, &model, script, *clone_at, Some(fault), ctx),
    }
}

pub fn faults<const N: usize, P: Pad>(ctx: &mut Ctx) {
    let thorough = ctx.args.thorough;
    let kinds: Vec<FpKind> = match ctx.args.get("kinds") {
        Some("drop") => vec![FpKind::Drop],
        Some("user") => KINDS[1..].to_vec(),
        _ => KINDS.to_vec(),
    };
    let routes: Vec<u8> = ctx.args.list("routes", &[0, 1, 3]).iter().map(|&x| x as u8).collect();
    let starts = if N == 0 { 1 } else { N };
    let _ = items_off::<N, P>();
    for &kind in &kinds {
        for start in 0..starts {
            for len in 0..=N {
                for act in fault_acts(N, len, kind, thorough) {
                    let ad = format!("{:?}", act);
                    if !ctx.mine_next() {
                        continue;
                    }
                    let key = hash64(&format!("{}|{}|{}|{}|{}|{:?}", N, P::NAME, start, len, ad, kind));
                    for &route in &routes {
                        if N == 0 && route != 0 && route != 3 {
                            continue;
                        }
                        // dry run: count the callback invocations inside the call
                        let mut count = 0;
                        if ctx.begin_case(|| {
                            format!("faults N={} T={} route={} start={} len={} act={} kind={} k=0(dry)", N, P::NAME, route_name(route), start, len, ad, kind.name())
                        }) {
                            let reports = ctx.total_reports;
                            let (_, c) = run_one::<N, P>(ctx, route, start, len, &act, (kind, 0), key as u32, key);
                            count = c;
                            ctx.count("dry_runs", 1);
                            if ctx.total_reports != reports {
                                // the action already deviates with no fault injected: that is another
                                // property's business, and a verdict about the fault would mean nothing
                                ctx.count("families_broken_without_fault", 1);
                                count = 0;
                            }
                        } else if ctx.args.only.is_some() {
                            // replay of a single case: still need the count to enumerate k
                            let saved = (ctx.viol.len(), ctx.evaluations);
                            let (_, c) = run_one::<N, P>(ctx, route, start, len, &act, (kind, 0), key as u32, key);
                            count = c;
                            ctx.viol.truncate(saved.0);
                        }
                        for k in 1..=count {
                            if !ctx.begin_case(|| {
                                format!("faults N={} T={} route={} start={} len={} act={} kind={} k={}/{}", N, P::NAME, route_name(route), start, len, ad, kind.name(), k, count)
                            }) {
                                continue;
                            }
                            let (fired, _) = run_one::<N, P>(ctx, route, start, len, &act, (kind, k), key as u32, key ^ k as u64);
                            ctx.count("faults_injected", 1);
                            if fired {
                                ctx.distinct.insert(hash64(&format!("{}|{}", key, k)));
                            } else {
                                ctx.count("faults_not_reached", 1);
                                let c = ctx.cur_case.clone();
                                if ctx.notes.len() < 8 {
                                    ctx.notes.push(format!("fault not reached: {}", c));
                                }
                            }
                        }
                    }
                }
            }
        }
    }
    // constructors under destructor / iterator faults
    ctor_faults::<N, P>(ctx, &kinds);
}

macro_rules! for_m {
    ($m:ident, $body:block) => {
        for_m!(@ $m, $body, 0, 1, 2, 3, 4, 5, 6, 7, 8, 9, 10, 11, 12, 13, 14, 15, 16, 17);
    };
    (@ $m:ident, $body:block, $($v:literal),*) => {
        $( { const $m: usize = $v; $body } )*
    };
}
pub(crate) use for_m;

fn ctor_faults<const N: usize, P: Pad>(ctx: &mut Ctx, kinds: &[FpKind]) {
    let fol = [Op::PushBack, Op::PopFront, Op::Clear];
    if kinds.contains(&FpKind::Drop) {
        for_m!(M, {
            if M <= 2 * N + 1 {
                let key = hash64(&format!("from_array|{}|{}|{}", N, P::NAME, M));
                if ctx.mine_next() {
                    let mut count = 0;
                    if ctx.begin_case(|| format!("faults N={} T={} from_array M={} kind=drop k=0(dry)", N, P::NAME, M)) {
                        ledger_reset();
                        count = from_array_case::<N, M, P>(Some((FpKind::Drop, 0)), ctx, &fol).1;
                    }
                    for k in 1..=count {
                        if !ctx.begin_case(|| format!("faults N={} T={} from_array M={} kind=drop k={}/{}", N, P::NAME, M, k, count)) {
                            continue;
                        }
                        ledger_reset();
                        let (fired, _) = from_array_case::<N, M, P>(Some((FpKind::Drop, k)), ctx, &fol);
                        ctx.count("faults_injected", 1);
                        if fired {
                            ctx.distinct.insert(hash64(&format!("{}|{}", key, k)));
                        } else {
                            ctx.count("faults_not_reached", 1);
                        }
                    }
                }
            }
        });
    }
    for &kind in kinds {
        if kind != FpKind::Drop && kind != FpKind::IterNext {
            continue;
        }
        for k_items in 0..=2 * N + 1 {
            if !ctx.mine_next() {
                continue;
            }
            let key = hash64(&format!("from_iter|{}|{}|{}|{:?}", N, P::NAME, k_items, kind));
            let mut count = 0;
            if ctx.begin_case(|| format!("faults N={} T={} from_iter items={} kind={} k=0(dry)", N, P::NAME, k_items, kind.name())) {
                ledger_reset();
                count = from_iter_case::<N, P>(k_items, (k_items % 5) as u8, Some((kind, 0)), ctx, &fol).1;
            }
            for k in 1..=count {
                if !ctx.begin_case(|| format!("faults N={} T={} from_iter items={} kind={} k={}/{}", N, P::NAME, k_items, kind.name(), k, count)) {
                    continue;
                }
                ledger_reset();
                let (fired, _) = from_iter_case::<N, P>(k_items, (k_items % 5) as u8, Some((kind, k)), ctx, &fol);
                ctx.count("faults_injected", 1);
                if fired {
                    ctx.distinct.insert(hash64(&format!("{}|{}", key, k)));
                } else {
                    ctx.count("faults_not_reached", 1);
                }
            }
        }
    }
}
