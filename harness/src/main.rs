#![allow(clippy::too_many_arguments, clippy::type_complexity)]

mod alloc;
mod cmp;
mod ctor;
#[cfg(feature = "has-std")]
mod io;
mod nonint;
mod zst;
mod drain;
mod engine;
mod iters;
mod faults;
mod random;
mod term;
mod model;
mod ops;
mod sweep;
mod tok;
mod util;
mod watchdog;

use util::{Args, Ctx};

#[global_allocator]
static GLOBAL: alloc::Mon = alloc::Mon;

/// monomorphise `$($f)::+::<N, $p>(ctx)` for the supported capacities
macro_rules! dispatch {
    ($n:expr, $p:ty, $($f:ident)::+, $ctx:expr) => {
        match $n {
            0 => $($f)::+::<0, $p>($ctx),
            1 => $($f)::+::<1, $p>($ctx),
            2 => $($f)::+::<2, $p>($ctx),
            3 => $($f)::+::<3, $p>($ctx),
            4 => $($f)::+::<4, $p>($ctx),
            5 => $($f)::+::<5, $p>($ctx),
            6 => $($f)::+::<6, $p>($ctx),
            7 => $($f)::+::<7, $p>($ctx),
            8 => $($f)::+::<8, $p>($ctx),
            9 => $($f)::+::<9, $p>($ctx),
            10 => $($f)::+::<10, $p>($ctx),
            16 => $($f)::+::<16, $p>($ctx),
            61 => $($f)::+::<61, $p>($ctx),
            1000 => $($f)::+::<1000, $p>($ctx),
            n => {
                $ctx.notes.push(format!("capacity {} not instantiated for this workload", n));
            }
        }
    };
}
pub(crate) use dispatch;

/// capacities instantiated for the random-history workload only (threshold- and
/// power-of-two-dependent code paths)
macro_rules! dispatch_r {
    ($n:expr, $p:ty, $($f:ident)::+, $ctx:expr) => {
        match $n {
            31 => $($f)::+::<31, $p>($ctx),
            32 => $($f)::+::<32, $p>($ctx),
            33 => $($f)::+::<33, $p>($ctx),
            64 => $($f)::+::<64, $p>($ctx),
            127 => $($f)::+::<127, $p>($ctx),
            128 => $($f)::+::<128, $p>($ctx),
            255 => $($f)::+::<255, $p>($ctx),
            256 => $($f)::+::<256, $p>($ctx),
            257 => $($f)::+::<257, $p>($ctx),
            n => dispatch!(n, $p, $($f)::+, $ctx),
        }
    };
}

macro_rules! dispatch1 {
    ($n:expr, $($f:ident)::+, $ctx:expr) => {
        match $n {
            0 => $($f)::+::<0>($ctx),
            1 => $($f)::+::<1>($ctx),
            2 => $($f)::+::<2>($ctx),
            3 => $($f)::+::<3>($ctx),
            4 => $($f)::+::<4>($ctx),
            5 => $($f)::+::<5>($ctx),
            6 => $($f)::+::<6>($ctx),
            7 => $($f)::+::<7>($ctx),
            8 => $($f)::+::<8>($ctx),
            16 => $($f)::+::<16>($ctx),
            32 => $($f)::+::<32>($ctx),
            61 => $($f)::+::<61>($ctx),
            255 => $($f)::+::<255>($ctx),
            256 => $($f)::+::<256>($ctx),
            257 => $($f)::+::<257>($ctx),
            1000 => $($f)::+::<1000>($ctx),
            n => $ctx.notes.push(format!("capacity {} not instantiated for this workload", n)),
        }
    };
}

macro_rules! dispatch2_inner {
    ($n:literal, $m:expr, $($f:ident)::+, $ctx:expr) => {
        match $m {
            0 => $($f)::+::<$n, 0>($ctx),
            1 => $($f)::+::<$n, 1>($ctx),
            2 => $($f)::+::<$n, 2>($ctx),
            3 => $($f)::+::<$n, 3>($ctx),
            4 => $($f)::+::<$n, 4>($ctx),
            5 => $($f)::+::<$n, 5>($ctx),
            6 => $($f)::+::<$n, 6>($ctx),
            _ => {}
        }
    };
}
macro_rules! dispatch2 {
    ($n:expr, $m:expr, $($f:ident)::+, $ctx:expr) => {
        match $n {
            0 => dispatch2_inner!(0, $m, $($f)::+, $ctx),
            1 => dispatch2_inner!(1, $m, $($f)::+, $ctx),
            2 => dispatch2_inner!(2, $m, $($f)::+, $ctx),
            3 => dispatch2_inner!(3, $m, $($f)::+, $ctx),
            4 => dispatch2_inner!(4, $m, $($f)::+, $ctx),
            5 => dispatch2_inner!(5, $m, $($f)::+, $ctx),
            6 => dispatch2_inner!(6, $m, $($f)::+, $ctx),
            _ => {}
        }
    };
}

#[cfg(not(feature = "heaptok"))]
type MainPad = tok::Hook;
#[cfg(feature = "heaptok")]
type MainPad = tok::HeapPad;

fn main() {
    let argv: Vec<String> = std::env::args().collect();
    let args = Args::parse(&argv);
    tok::install_panic_hook(args.verbose);
    let mut ctx = Ctx::new(args.clone());
    watchdog::start(args.num("hang-cpu-s", 30));
    let ns = args.list("n", &[0, 1, 2, 3, 4]);
    let elem = args.get("elem").unwrap_or("tok").to_string();
    // A panic that escapes a case comes either from the crate under test (called by the harness'
    // own observation / state-building code, where no panic is ever documented) or from the
    // harness tripping over inconsistent answers of the crate. Record it, skip that case, go on.
    let mut restarts = 0;
    loop {
        let r = std::panic::catch_unwind(std::panic::AssertUnwindSafe(|| run(&args, &mut ctx, &ns, &elem)));
        if r.is_ok() {
            break;
        }
        ctx.record_escaped_panic();
        restarts += 1;
        if restarts > 200 || !ctx.can_skip {
            ctx.notes.push("gave up restarting after an escaped panic".to_string());
            ctx.count("harness_gave_up", 1);
            break;
        }
        ctx.skip_upto = ctx.case_idx;
        ctx.case_idx = 0;
        ctx.enum_idx = 0;
    }
    ctx.emit(&args.workload, "");
}

fn run(args: &Args, ctx: &mut Ctx, ns: &[usize], elem: &str) {
    match args.workload.as_str() {
        "sweep" => {
            for &n in ns {
                if elem == "wide" {
                    #[cfg(not(feature = "heaptok"))]
                    dispatch!(n, tok::Pad32, sweep::sweep, &mut *ctx);
                } else if elem == "nodrop" {
                    dispatch!(n, (), sweep::sweep, &mut *ctx);
                } else {
                    dispatch!(n, MainPad, sweep::sweep, &mut *ctx);
                }
            }
        }
        "random" => {
            for &n in ns {
                if elem == "wide" {
                    #[cfg(not(feature = "heaptok"))]
                    dispatch!(n, tok::Pad32, random::random, &mut *ctx);
                } else if elem == "nodrop" {
                    dispatch_r!(n, (), random::random, &mut *ctx);
                } else {
                    dispatch_r!(n, MainPad, random::random, &mut *ctx);
                }
            }
        }
        "nonint" => {
            for &n in ns {
                if elem == "wide" {
                    #[cfg(not(feature = "heaptok"))]
                    dispatch!(n, tok::Pad32, nonint::nonint, &mut *ctx);
                } else if elem == "nodrop" {
                    dispatch!(n, (), nonint::nonint, &mut *ctx);
                } else {
                    dispatch!(n, MainPad, nonint::nonint, &mut *ctx);
                }
            }
        }
        "ctor" => {
            for &n in ns {
                if elem == "nodrop" {
                    dispatch!(n, (), ctor::ctor, &mut *ctx);
                } else {
                    dispatch!(n, MainPad, ctor::ctor, &mut *ctx);
                }
            }
        }
        #[cfg(feature = "has-std")]
        "io" => {
            for &n in ns {
                dispatch1!(n, io::io, &mut *ctx);
            }
        }
        #[cfg(feature = "has-std")]
        "io_random" => {
            for &n in ns {
                dispatch1!(n, io::io_random, &mut *ctx);
            }
        }
        #[cfg(not(feature = "heaptok"))]
        "cmp" => {
            let top = ns.iter().copied().max().unwrap_or(0);
            for n in 0..=top {
                for m in 0..=top {
                    dispatch2!(n, m, cmp::cmp_pair, &mut *ctx);
                }
                dispatch1!(n, cmp::cmp_misc, &mut *ctx);
            }
        }
        "zst" => {
            let which = args.list("z", &[0, 1, 2, 3, 4, 5, 6, 7, 8, 9, 10, 11]);
            for w in which {
                match w {
                    0 => zst::zst::<{ usize::MAX }>(&mut *ctx),
                    1 => zst::zst::<{ usize::MAX - 1 }>(&mut *ctx),
                    2 => zst::zst::<{ (1usize << 63) + 1 }>(&mut *ctx),
                    3 => zst::zst::<{ 1usize << 63 }>(&mut *ctx),
                    4 => zst::zst::<{ (1usize << 63) - 1 }>(&mut *ctx),
                    5 => zst::zst::<{ (1usize << 32) + 1 }>(&mut *ctx),
                    6 => zst::zst::<{ 1usize << 32 }>(&mut *ctx),
                    7 => zst::zst::<{ (1usize << 32) - 1 }>(&mut *ctx),
                    8 => zst::zst::<65537>(&mut *ctx),
                    9 => zst::zst::<3>(&mut *ctx),
                    10 => zst::zst::<1>(&mut *ctx),
                    _ => zst::zst::<0>(&mut *ctx),
                }
            }
        }
        "drain" => {
            for &n in ns {
                if elem == "nodrop" {
                    dispatch!(n, (), drain::drain, &mut *ctx);
                } else {
                    dispatch!(n, MainPad, drain::drain, &mut *ctx);
                }
            }
        }
        "iters" => {
            for &n in ns {
                if elem == "nodrop" {
                    dispatch!(n, (), iters::iters, &mut *ctx);
                } else {
                    dispatch!(n, MainPad, iters::iters, &mut *ctx);
                }
            }
        }
        "faults" => {
            for &n in ns {
                if elem == "nodrop" {
                    dispatch!(n, (), faults::faults, &mut *ctx);
                } else {
                    dispatch!(n, MainPad, faults::faults, &mut *ctx);
                }
            }
        }
        w => {
            eprintln!("unknown workload {:?}", w);
            std::process::exit(3);
        }
    }
}
