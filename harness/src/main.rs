#![allow(clippy::too_many_arguments, clippy::type_complexity)]

mod alloc;
mod engine;
mod model;
mod ops;
mod sweep;
mod tok;
mod util;

use util::{Args, Ctx};

#[global_allocator]
static GLOBAL: alloc::Mon = alloc::Mon;

/// monomorphise `$($f)::+::<N, $p>(ctx)` for the supported capacities
macro_rules! dispatch {
    ($n:expr, $p:ty, $($f:ident)::+, $ctx:expr) => {
        match $n {
            0 => $($f)::+::<0, $p>($ctx),
            1 => $($f)::+::<1, $p>($ctx),
            2 => $($f)::+::<2, $p>($ctx),
            3 => $($f)::+::<3, $p>($ctx),
            4 => $($f)::+::<4, $p>($ctx),
            5 => $($f)::+::<5, $p>($ctx),
            6 => $($f)::+::<6, $p>($ctx),
            7 => $($f)::+::<7, $p>($ctx),
            8 => $($f)::+::<8, $p>($ctx),
            n => {
                $ctx.notes.push(format!("capacity {} not instantiated for this workload", n));
            }
        }
    };
}
pub(crate) use dispatch;

#[cfg(not(feature = "heaptok"))]
type MainPad = ();
#[cfg(feature = "heaptok")]
type MainPad = Box<u32>;

fn main() {
    let argv: Vec<String> = std::env::args().collect();
    let args = Args::parse(&argv);
    tok::install_panic_hook(args.verbose);
    let mut ctx = Ctx::new(args.clone());
    let ns = args.list("n", &[0, 1, 2, 3, 4]);
    let elem = args.get("elem").unwrap_or("tok").to_string();
    match args.workload.as_str() {
        "sweep" => {
            for &n in &ns {
                if elem == "wide" {
                    #[cfg(not(feature = "heaptok"))]
                    dispatch!(n, tok::Pad32, sweep::sweep, &mut ctx);
                } else {
                    dispatch!(n, MainPad, sweep::sweep, &mut ctx);
                }
            }
        }
        w => {
            eprintln!("unknown workload {:?}", w);
            std::process::exit(3);
        }
    }
    ctx.emit(&args.workload, "");
}
