//! RNG, violation collection, JSON output, CLI args.

use std::collections::{BTreeMap, HashMap, HashSet};
use std::fmt::Write as _;

#[derive(Clone)]
pub struct Rng(pub u64);
impl Rng {
    pub fn new(seed: u64) -> Self {
        let mut r = Rng(seed ^ 0x9E37_79B9_7F4A_7C15);
        r.next();
        r.next();
        r
    }
    #[inline]
    pub fn next(&mut self) -> u64 {
        // splitmix64
        self.0 = self.0.wrapping_add(0x9E37_79B9_7F4A_7C15);
        let mut z = self.0;
        z = (z ^ (z >> 30)).wrapping_mul(0xBF58_476D_1CE4_E5B9);
        z = (z ^ (z >> 27)).wrapping_mul(0x94D0_49BB_1331_11EB);
        z ^ (z >> 31)
    }
    #[inline]
    pub fn below(&mut self, n: u64) -> u64 {
        if n == 0 {
            0
        } else {
            self.next() % n
        }
    }
    #[inline]
    pub fn chance(&mut self, num: u64, den: u64) -> bool {
        self.below(den) < num
    }
    pub fn pick<'a, T>(&mut self, xs: &'a [T]) -> &'a T {
        &xs[self.below(xs.len() as u64) as usize]
    }
}

pub fn hash64(s: &str) -> u64 {
    // FNV-1a 64 followed by a finalizer; fixed key so digests are comparable across builds
    let mut h: u64 = 0xcbf29ce484222325;
    for b in s.as_bytes() {
        h ^= *b as u64;
        h = h.wrapping_mul(0x100000001b3);
    }
    h ^= h >> 32;
    h = h.wrapping_mul(0xD6E8_FEB8_6659_FD93);
    h ^ (h >> 32)
}

pub fn json_str(s: &str) -> String {
    let mut o = String::with_capacity(s.len() + 2);
    o.push('"');
    for c in s.chars() {
        match c {
            '"' => o.push_str("\\\""),
            '\\' => o.push_str("\\\\"),
            '\n' => o.push_str("\\n"),
            '\r' => o.push_str("\\r"),
            '\t' => o.push_str("\\t"),
            c if (c as u32) < 0x20 => {
                let _ = write!(o, "\\u{:04x}", c as u32);
            }
            c => o.push(c),
        }
    }
    o.push('"');
    o
}

#[derive(Clone, Debug)]
pub struct Violation {
    pub prop: &'static str,
    pub sig: String,
    pub detail: String,
    pub case: String, // replay descriptor (harness CLI that re-runs exactly this case)
    pub count: u64,
}

/// Per-process collector.
pub struct Ctx {
    pub args: Args,
    pub rng: Rng,
    pub viol: Vec<Violation>,
    viol_idx: HashMap<(&'static str, String), usize>,
    pub counters: BTreeMap<&'static str, u64>,
    pub distinct: HashSet<u64>,
    pub layouts: HashSet<u64>,
    pub samples: Vec<String>,
    pub evaluations: u64,
    pub case_idx: u64,
    pub cur_case: String,
    pub notes: Vec<String>,
    pub digest: u64, // rolling digest of canonical traces (C18)
    pub case_digests: Vec<(u64, u64)>,
    pub want_case_digests: bool,
    pub attribute: Option<&'static str>,
    pub enum_idx: u64,
    pub sample: u64,
    pub sample_phase: u64,
    /// after an escaped panic the enumeration is restarted and cases up to here are skipped
    pub skip_upto: u64,
    pub can_skip: bool,
    /// properties refuted by a crate panic that escapes a case of the current workload
    pub panic_props: Vec<&'static str>,
    /// (property, signature) of deviations observed while no fault was in play
    pub baseline: HashSet<(&'static str, String)>,
    /// number of calls to `violation` (including repeats of a known signature)
    pub total_reports: u64,
}

impl Ctx {
    pub fn new(args: Args) -> Self {
        let seed = args.seed;
        let shard = args.shard.0 as u64;
        let want = args.flag("case-digests");
        let sample = args.num("sample", 1).max(1);
        Ctx {
            args,
            rng: Rng::new(seed.wrapping_mul(1_000_003).wrapping_add(shard)),
            viol: Vec::new(),
            viol_idx: HashMap::new(),
            counters: BTreeMap::new(),
            distinct: HashSet::new(),
            layouts: HashSet::new(),
            samples: Vec::new(),
            evaluations: 0,
            case_idx: 0,
            cur_case: String::new(),
            notes: Vec::new(),
            digest: 0,
            case_digests: Vec::new(),
            want_case_digests: want,
            attribute: None,
            enum_idx: 0,
            sample,
            sample_phase: if sample > 1 { seed % sample } else { 0 },
            skip_upto: 0,
            can_skip: true,
            panic_props: Vec::new(),
            baseline: HashSet::new(),
            total_reports: 0,
        }
    }

    #[inline]
    pub fn count(&mut self, k: &'static str, n: u64) {
        *self.counters.entry(k).or_insert(0) += n;
    }

    /// Partition the (deterministic) enumeration over shards by enumeration index: disjoint, so
    /// per-shard distinct-key sets are disjoint too, and nothing is formatted for skipped items.
    #[inline]
    pub fn mine_next(&mut self) -> bool {
        let (i, n) = self.args.shard;
        self.enum_idx += 1;
        // deterministic sub-sampling (sanitizer runs): keep every `sample`-th enumerated item
        if self.sample > 1 {
            if self.enum_idx % self.sample != self.sample_phase {
                return false;
            }
            return n <= 1 || (self.enum_idx / self.sample) % (n as u64) == i as u64;
        }
        n <= 1 || self.enum_idx % (n as u64) == i as u64
    }

    /// Register the start of a case; returns false if the case is filtered out (`--only`).
    pub fn begin_case(&mut self, desc: impl FnOnce() -> String) -> bool {
        self.case_idx += 1;
        if self.case_idx <= self.skip_upto {
            return false;
        }
        if let Some(o) = self.args.only {
            if o != self.case_idx {
                return false;
            }
        }
        self.cur_case = desc();
        crate::watchdog::note_case(&self.cur_case);
        if self.want_case_digests {
            self.case_digests.push((self.case_idx, crate::tok::trace_digest()));
        }
        if self.args.breadcrumbs || self.args.verbose {
            eprintln!("CASE {} {}", self.case_idx, self.cur_case);
        }
        if self.samples.len() < 12 && (self.samples.len() < 3 || self.rng.chance(1, 4000)) {
            self.samples.push(self.cur_case.clone());
        }
        self.evaluations += 1;
        true
    }

    pub fn violation(&mut self, prop: &'static str, sig: String, detail: String) {
        self.total_reports += 1;
        // follow-up operations after an injected fault: a deviation refutes the fault property
        // Deviations of follow-up operations after an injected fault refute the fault property -
        // unless the very same deviation (same property, same structural signature) has also been
        // seen in this process where no fault had been injected: then it does not depend on the
        // fault and stays with its own property.
        let (prop, sig) = match self.attribute {
            Some(p) if matches!(prop, "C01" | "C02" | "C03" | "C07" | "C09" | "C11" | "C20" | "C17") => {
                if matches!(prop, "C20" | "C17") {
                    return;
                }
                if self.baseline.contains(&(prop, sig.clone())) {
                    (prop, sig)
                } else {
                    (p, format!("via:{}:{}", prop, sig))
                }
            }
            Some(_) => (prop, sig),
            None => {
                self.baseline.insert((prop, sig.clone()));
                (prop, sig)
            }
        };
        let key = (prop, sig.clone());
        if let Some(&i) = self.viol_idx.get(&key) {
            self.viol[i].count += 1;
            return;
        }
        if self.args.verbose {
            eprintln!("VIOL {} {} :: {}", prop, sig, detail);
        }
        let case = format!("{} --only {}", self.args.replay_prefix(), self.case_idx);
        self.viol_idx.insert(key, self.viol.len());
        self.viol.push(Violation { prop, sig, detail, case, count: 1 });
    }

    /// A panic escaped a case: from the crate (called by the harness' own observation or
    /// state-building code, where no panic is ever documented) or from the harness tripping over
    /// inconsistent answers of the crate.
    pub fn record_escaped_panic(&mut self) {
        let (msg, loc) = crate::tok::take_last_panic().unwrap_or_default();
        crate::tok::fp_disarm();
        crate::alloc::set_paint(None);
        crate::alloc::scope_pause();
        self.attribute = None;
        let case = self.cur_case.clone();
        let opname = case
            .split("op=")
            .nth(1)
            .or_else(|| case.split("act=").nth(1))
            .unwrap_or("")
            .split(|c: char| !(c.is_alphanumeric() || c == '_'))
            .next()
            .unwrap_or("")
            .to_string();
        if loc.contains("/repo/src/") {
            let short = loc.rsplit("/repo/").next().unwrap_or(&loc).to_string();
            let props: Vec<&'static str> = if self.panic_props.is_empty() { vec!["C11", "C07"] } else { self.panic_props.clone() };
            for p in props {
                self.violation(
                    p,
                    format!("crate_panic_outside_operation@{}|near={}", short, opname),
                    format!("the crate panicked ({} at {}) while the harness was building or observing the state; case={}", msg, loc, case),
                );
            }
            self.count("crate_panics_in_observer", 1);
        } else {
            self.violation("HARNESS", format!("oracle_panic@{}", loc), format!("{} at {}; case={}", msg, loc, case));
            self.count("harness_panics", 1);
            if self.notes.len() < 6 {
                self.notes.push(format!("harness panic: {} at {} in case {}", msg, loc, case));
            }
        }
    }

    pub fn add_trace(&mut self, s: &str) {
        let h = hash64(s);
        self.digest = (self.digest.rotate_left(5) ^ h).wrapping_mul(0x9E37_79B9_7F4A_7C15);
    }
    pub fn end_case_digest(&mut self, case_hash: u64) {
        if self.want_case_digests {
            self.case_digests.push((self.case_idx, case_hash));
        }
    }

    pub fn emit(&self, workload: &str, extra: &str) {
        let mut o = String::new();
        o.push_str("{\"workload\":");
        o.push_str(&json_str(workload));
        let _ = write!(o, ",\"shard\":[{},{}]", self.args.shard.0, self.args.shard.1);
        let _ = write!(o, ",\"evaluations\":{}", self.evaluations);
        let _ = write!(o, ",\"cases_enumerated\":{}", self.case_idx);
        let _ = write!(o, ",\"distinct\":{}", self.distinct.len());
        let _ = write!(o, ",\"layouts\":{}", self.layouts.len());
        let _ = write!(o, ",\"digest\":\"{:016x}\"", self.digest ^ crate::tok::trace_digest());
        if self.args.flag("emit-distinct") {
            o.push_str(",\"distinct_keys\":[");
            for (i, k) in self.distinct.iter().enumerate() {
                if i > 0 {
                    o.push(',');
                }
                let _ = write!(o, "{}", k >> 11); // fits in a double
            }
            o.push(']');
        }
        if self.layouts.len() <= 20000 {
            o.push_str(",\"layout_keys\":[");
            for (i, k) in self.layouts.iter().enumerate() {
                if i > 0 {
                    o.push(',');
                }
                let _ = write!(o, "{}", k >> 11);
            }
            o.push(']');
        }
        if self.want_case_digests {
            o.push_str(",\"case_digests\":[");
            for (i, (c, d)) in self.case_digests.iter().enumerate() {
                if i > 0 {
                    o.push(',');
                }
                let _ = write!(o, "[{},\"{:016x}\"]", c, d);
            }
            o.push(']');
        }
        o.push_str(",\"counters\":{");
        for (i, (k, v)) in self.counters.iter().enumerate() {
            if i > 0 {
                o.push(',');
            }
            let _ = write!(o, "{}:{}", json_str(k), v);
        }
        o.push_str("},\"samples\":[");
        for (i, s) in self.samples.iter().enumerate() {
            if i > 0 {
                o.push(',');
            }
            o.push_str(&json_str(s));
        }
        o.push_str("],\"notes\":[");
        for (i, s) in self.notes.iter().enumerate() {
            if i > 0 {
                o.push(',');
            }
            o.push_str(&json_str(s));
        }
        o.push_str("],\"violations\":[");
        for (i, v) in self.viol.iter().enumerate() {
            if i > 0 {
                o.push(',');
            }
            let _ = write!(
                o,
                "{{\"prop\":{},\"sig\":{},\"detail\":{},\"case\":{},\"count\":{}}}",
                json_str(v.prop),
                json_str(&v.sig),
                json_str(&v.detail),
                json_str(&v.case),
                v.count
            );
        }
        o.push(']');
        if !extra.is_empty() {
            o.push(',');
            o.push_str(extra);
        }
        o.push('}');
        println!("RESULT {}", o);
    }
}

#[derive(Clone, Debug, Default)]
pub struct Args {
    pub workload: String,
    pub kv: BTreeMap<String, String>,
    pub seed: u64,
    pub shard: (u32, u32),
    pub only: Option<u64>,
    pub verbose: bool,
    pub breadcrumbs: bool,
    pub thorough: bool,
}

impl Args {
    pub fn parse(argv: &[String]) -> Args {
        let mut a = Args { shard: (0, 1), ..Default::default() };
        let mut it = argv.iter().skip(1);
        if let Some(w) = it.next() {
            a.workload = w.clone();
        }
        while let Some(k) = it.next() {
            let k = k.trim_start_matches("--").to_string();
            match k.as_str() {
                "verbose" => a.verbose = true,
                "breadcrumbs" => a.breadcrumbs = true,
                "thorough" => a.thorough = true,
                _ => {
                    // flags without value are written as --flag=1 or "--key value"
                    if let Some((kk, vv)) = k.split_once('=') {
                        a.kv.insert(kk.to_string(), vv.to_string());
                    } else if let Some(v) = it.next() {
                        a.kv.insert(k, v.clone());
                    }
                }
            }
        }
        if let Some(s) = a.kv.get("seed") {
            a.seed = s.parse().unwrap_or(0);
        }
        if let Some(s) = a.kv.get("shard") {
            if let Some((i, n)) = s.split_once('/') {
                a.shard = (i.parse().unwrap_or(0), n.parse().unwrap_or(1));
            }
        }
        if let Some(s) = a.kv.get("only") {
            a.only = s.parse().ok();
        }
        a
    }
    pub fn get(&self, k: &str) -> Option<&str> {
        self.kv.get(k).map(|s| s.as_str())
    }
    pub fn num(&self, k: &str, d: u64) -> u64 {
        self.get(k).and_then(|s| s.parse().ok()).unwrap_or(d)
    }
    pub fn flag(&self, k: &str) -> bool {
        matches!(self.get(k), Some("1") | Some("true") | Some("yes"))
    }
    pub fn list(&self, k: &str, d: &[usize]) -> Vec<usize> {
        match self.get(k) {
            Some(s) => s.split(',').filter_map(|x| x.trim().parse().ok()).collect(),
            None => d.to_vec(),
        }
    }
    /// CLI that re-runs this process (minus --only / --verbose)
    pub fn replay_prefix(&self) -> String {
        let mut s = self.workload.clone();
        for (k, v) in &self.kv {
            if k == "only" {
                continue;
            }
            let _ = write!(s, " --{} {}", k, v);
        }
        if self.thorough {
            s.push_str(" --thorough");
        }
        s
    }
}
