//! Operation vocabulary of the Tok engine.

#[derive(Clone, Copy, Debug, PartialEq, Eq, Hash)]
pub enum B {
    I(usize),
    E(usize),
    U,
}
pub type Rg = (B, B);

#[derive(Clone, Copy, Debug, PartialEq, Eq, Hash)]
pub enum Step {
    /// next()
    F,
    /// next_back()
    B,
    /// nth(k), k >= 1: skips k elements from the front, yields the next one
    N(u8),
    /// nth_back(k), k >= 1
    NB(u8),
}

/// apply one step to a double-ended iterator
#[inline]
pub fn apply_step<I: DoubleEndedIterator>(it: &mut I, s: Step) -> Option<I::Item> {
    match s {
        Step::F => it.next(),
        Step::B => it.next_back(),
        Step::N(k) => it.nth(k as usize),
        Step::NB(k) => it.nth_back(k as usize),
    }
}

/// the not-yet-consumed window lo..hi of positions; `step` returns the yielded position
#[derive(Clone, Copy, Debug, PartialEq, Eq)]
pub struct Win {
    pub lo: usize,
    pub hi: usize,
}
impl Win {
    pub fn len(&self) -> usize {
        self.hi - self.lo
    }
    pub fn step(&mut self, s: Step) -> Option<usize> {
        let rem = self.hi - self.lo;
        match s {
            Step::F | Step::N(_) => {
                let k = if let Step::N(k) = s { k as usize } else { 0 };
                if k < rem {
                    let p = self.lo + k;
                    self.lo = p + 1;
                    Some(p)
                } else {
                    self.lo = self.hi;
                    None
                }
            }
            Step::B | Step::NB(_) => {
                let k = if let Step::NB(k) = s { k as usize } else { 0 };
                if k < rem {
                    let p = self.hi - 1 - k;
                    self.hi = p;
                    Some(p)
                } else {
                    self.hi = self.lo;
                    None
                }
            }
        }
    }
}

#[derive(Clone, Copy, Debug, PartialEq, Eq, Hash)]
pub enum End {
    Drop,
    Forget,
}

#[derive(Clone, Copy, Debug, PartialEq, Eq, Hash)]
pub enum MutView {
    GetMut,
    NthFrontMut,
    NthBackMut,
    FrontMut,
    BackMut,
    IndexMut,
    IterMut,
    IterMutRev,
    RangeMut,
    AsMutSlices,
    MakeContiguous,
}

pub const MUT_VIEWS: [MutView; 11] = [
    MutView::GetMut,
    MutView::NthFrontMut,
    MutView::NthBackMut,
    MutView::FrontMut,
    MutView::BackMut,
    MutView::IndexMut,
    MutView::IterMut,
    MutView::IterMutRev,
    MutView::RangeMut,
    MutView::AsMutSlices,
    MutView::MakeContiguous,
];

#[derive(Clone, Copy, Debug, PartialEq, Eq, Hash)]
pub enum WMode {
    Peek,
    SetVal(u32),
    Replace,
}

/// description of a second buffer (same capacity) used as a source
#[derive(Clone, Copy, Debug, PartialEq, Eq, Hash)]
pub struct SrcDesc {
    pub route: u8,
    pub start: usize,
    pub len: usize,
}

#[derive(Clone, Debug, PartialEq, Eq, Hash)]
pub enum Op {
    PushBack,
    PushFront,
    TryPushBack,
    TryPushFront,
    PopBack,
    PopFront,
    Remove(usize),
    Swap(usize, usize),
    SwapRemoveBack(usize),
    SwapRemoveFront(usize),
    TruncateBack(usize),
    TruncateFront(usize),
    Clear,
    Extend(usize),
    /// extend with an iterator whose size_hint is inexact: 1 = (0, None), 2 = (0, Some(too large)),
    /// 3 = (half, None)
    ExtendHinted(usize, u8),
    ExtendFromSlice(usize),
    Fill,
    FillWith,
    FillSpare,
    FillSpareWith,
    Drain(Rg, Vec<Step>, End),
    MakeContiguous(bool),
    Write(MutView, usize, WMode),
    CloneFrom(SrcDesc),
    // readers
    Quad,
    Get(usize),
    NthFront(usize),
    NthBack(usize),
    Front,
    Back,
    Index(usize),
    IterCollect(bool),
    IterMutCollect(bool),
    RangeCollect(Rg),
    RangeMutCollect(Rg),
    AsSlices,
    AsMutSlices,
    ToVec,
    CloneBuf,
    DebugFmt(usize),
    HashSelf,
    EqSelf,
    CmpSelf,
}

impl Op {
    pub fn name(&self) -> &'static str {
        match self {
            Op::PushBack => "push_back",
            Op::PushFront => "push_front",
            Op::TryPushBack => "try_push_back",
            Op::TryPushFront => "try_push_front",
            Op::PopBack => "pop_back",
            Op::PopFront => "pop_front",
            Op::Remove(_) => "remove",
            Op::Swap(..) => "swap",
            Op::SwapRemoveBack(_) => "swap_remove_back",
            Op::SwapRemoveFront(_) => "swap_remove_front",
            Op::TruncateBack(_) => "truncate_back",
            Op::TruncateFront(_) => "truncate_front",
            Op::Clear => "clear",
            Op::Extend(_) => "extend",
            Op::ExtendHinted(..) => "extend_inexact_hint",
            Op::ExtendFromSlice(_) => "extend_from_slice",
            Op::Fill => "fill",
            Op::FillWith => "fill_with",
            Op::FillSpare => "fill_spare",
            Op::FillSpareWith => "fill_spare_with",
            Op::Drain(_, _, End::Drop) => "drain",
            Op::Drain(_, _, End::Forget) => "drain_forget",
            Op::MakeContiguous(false) => "make_contiguous",
            Op::MakeContiguous(true) => "make_contiguous_sort",
            Op::Write(v, _, _) => match v {
                MutView::GetMut => "get_mut",
                MutView::NthFrontMut => "nth_front_mut",
                MutView::NthBackMut => "nth_back_mut",
                MutView::FrontMut => "front_mut",
                MutView::BackMut => "back_mut",
                MutView::IndexMut => "index_mut",
                MutView::IterMut => "iter_mut.nth",
                MutView::IterMutRev => "iter_mut.rev.nth",
                MutView::RangeMut => "range_mut.nth",
                MutView::AsMutSlices => "as_mut_slices.nth",
                MutView::MakeContiguous => "make_contiguous.nth",
            },
            Op::CloneFrom(_) => "clone_from",
            Op::Quad => "len_etc",
            Op::Get(_) => "get",
            Op::NthFront(_) => "nth_front",
            Op::NthBack(_) => "nth_back",
            Op::Front => "front",
            Op::Back => "back",
            Op::Index(_) => "index",
            Op::IterCollect(false) => "iter",
            Op::IterCollect(true) => "iter.rev",
            Op::IterMutCollect(false) => "iter_mut",
            Op::IterMutCollect(true) => "iter_mut.rev",
            Op::RangeCollect(_) => "range",
            Op::RangeMutCollect(_) => "range_mut",
            Op::AsSlices => "as_slices",
            Op::AsMutSlices => "as_mut_slices",
            Op::ToVec => "to_vec",
            Op::CloneBuf => "clone",
            Op::DebugFmt(_) => "debug_fmt",
            Op::HashSelf => "hash",
            Op::EqSelf => "eq",
            Op::CmpSelf => "cmp",
        }
    }

    /// how many fresh elements the harness must hand to the call
    pub fn n_args(&self) -> usize {
        match self {
            Op::PushBack | Op::PushFront | Op::TryPushBack | Op::TryPushFront => 1,
            Op::Extend(k) | Op::ExtendFromSlice(k) | Op::ExtendHinted(k, _) => *k,
            Op::Fill | Op::FillSpare => 1,
            Op::Write(_, _, WMode::Replace) => 1,
            _ => 0,
        }
    }

    /// does the operation change the contents or hand out an element (for "non-trivial" counting)
    pub fn is_mutator(&self) -> bool {
        !matches!(
            self,
            Op::Quad
                | Op::Get(_)
                | Op::NthFront(_)
                | Op::NthBack(_)
                | Op::Front
                | Op::Back
                | Op::Index(_)
                | Op::IterCollect(_)
                | Op::IterMutCollect(_)
                | Op::RangeCollect(_)
                | Op::RangeMutCollect(_)
                | Op::AsSlices
                | Op::AsMutSlices
                | Op::ToVec
                | Op::CloneBuf
                | Op::DebugFmt(_)
                | Op::HashSelf
                | Op::EqSelf
                | Op::CmpSelf
                | Op::Write(_, _, WMode::Peek)
        )
    }
}

/// class of an index/length argument relative to the current length and capacity
pub fn arg_class(x: usize, len: usize, n: usize) -> &'static str {
    if x == usize::MAX {
        "max"
    } else if x == usize::MAX - 1 {
        "max-1"
    } else if x == 0 {
        "0"
    } else if x + 1 == len {
        "len-1"
    } else if x == len {
        "len"
    } else if x < len {
        "in"
    } else if x == len + 1 {
        "len+1"
    } else if x == n {
        "N"
    } else if x < n {
        "len<x<N"
    } else {
        ">N"
    }
}

/// boundary set of index / length arguments for a state
pub fn boundary_args(len: usize, n: usize) -> Vec<usize> {
    let free = n - len;
    let mut v: Vec<usize> = vec![
        0,
        1,
        2,
        len.wrapping_sub(1),
        len,
        len + 1,
        n.wrapping_sub(1),
        n,
        n + 1,
        free.wrapping_sub(1),
        free,
        free + 1,
        2 * n + 1,
        usize::MAX - 1,
        usize::MAX,
    ];
    // all in-range positions too (small N)
    for i in 0..len.min(12) {
        v.push(i);
    }
    v.sort_unstable();
    v.dedup();
    v
}

/// every (Bound, Bound) pair over boundary values
pub fn boundary_ranges(len: usize, n: usize, full: bool) -> Vec<Rg> {
    let mut vals: Vec<usize> = vec![0, 1, len.wrapping_sub(1), len, len + 1, n + 1, usize::MAX - 1, usize::MAX];
    if full {
        for i in 0..=len.min(10) {
            vals.push(i);
        }
    } else if len >= 2 {
        vals.push(len / 2);
    }
    vals.sort_unstable();
    vals.dedup();
    let mut bs: Vec<B> = vec![B::U];
    for &v in &vals {
        bs.push(B::I(v));
        bs.push(B::E(v));
    }
    let mut out = Vec::new();
    for &a in &bs {
        for &b in &bs {
            out.push((a, b));
        }
    }
    out
}

/// all valid a..b in every RangeBounds form that denotes it
pub fn valid_range_forms(a: usize, b: usize, len: usize) -> Vec<Rg> {
    let mut s = vec![B::I(a)];
    if a > 0 {
        s.push(B::E(a - 1));
    }
    if a == 0 {
        s.push(B::U);
    }
    let mut e = vec![B::E(b)];
    if b > 0 {
        e.push(B::I(b - 1));
    }
    if b == len {
        e.push(B::U);
    }
    let mut out = Vec::new();
    for &x in &s {
        for &y in &e {
            out.push((x, y));
        }
    }
    out
}

pub fn scripts_upto(maxlen: usize) -> Vec<Vec<Step>> {
    let mut out = vec![vec![]];
    let mut cur: Vec<Vec<Step>> = vec![vec![]];
    for _ in 0..maxlen {
        let mut next = Vec::with_capacity(cur.len() * 2);
        for s in &cur {
            let mut a = s.clone();
            a.push(Step::F);
            let mut b = s.clone();
            b.push(Step::B);
            next.push(a);
            next.push(b);
        }
        out.extend(next.iter().cloned());
        cur = next;
    }
    out
}

pub fn script_str(s: &[Step]) -> String {
    s.iter()
        .map(|x| match x {
            Step::F => "f".to_string(),
            Step::B => "b".to_string(),
            Step::N(k) => format!("n{}", k),
            Step::NB(k) => format!("r{}", k),
        })
        .collect()
}

/// extra scripts exercising nth / nth_back (which an iterator may override)
pub fn nth_scripts() -> Vec<Vec<Step>> {
    let mut v = Vec::new();
    for k in 1..=2u8 {
        v.push(vec![Step::N(k)]);
        v.push(vec![Step::NB(k)]);
        v.push(vec![Step::F, Step::N(k)]);
        v.push(vec![Step::N(k), Step::B]);
        v.push(vec![Step::B, Step::NB(k)]);
        v.push(vec![Step::NB(k), Step::F]);
        v.push(vec![Step::N(k), Step::NB(1)]);
    }
    v.push(vec![Step::N(1), Step::N(1)]);
    v.push(vec![Step::N(3)]);
    v.push(vec![Step::NB(3), Step::F]);
    v
}

pub fn rg_str(r: Rg) -> String {
    let f = |b: B, open: bool| match b {
        B::U => "".to_string(),
        B::I(x) => {
            if open {
                format!("{}", x)
            } else {
                format!("={}", x)
            }
        }
        B::E(x) => {
            if open {
                format!("{}<", x)
            } else {
                format!("{}", x)
            }
        }
    };
    format!("{}..{}", f(r.0, true), f(r.1, false))
}
