//! Non-interference (C04): the same logical state and call must give the same canonical trace
//! whatever lies in the unoccupied slots, whatever history built the state and wherever the front
//! sits in the array. Variants = (front slot, construction route, filling of unoccupied slots).

use crate::engine::*;
use crate::ops::*;
use crate::sweep::op_list;
use crate::term::into_iter_case;
use crate::tok::*;
use crate::util::{hash64, Ctx};
use std::collections::HashMap;

struct Labeler {
    map: HashMap<u64, String>,
}
impl Labeler {
    fn label(&self, id: u64) -> String {
        if id == 0 {
            return "-".into();
        }
        if let Some(l) = self.map.get(&id) {
            return l.clone();
        }
        let p = ledger_parent(id);
        if p != 0 {
            format!("c({})", self.label(p))
        } else {
            "?".to_string()
        }
    }
    fn ret(&self, r: &Ret) -> String {
        match r {
            Ret::Opt(o) => format!("Opt({})", o.map(|i| self.label(i)).unwrap_or_else(|| "None".into())),
            Ret::Res(Ok(())) => "Ok".into(),
            Ret::Res(Err(i)) => format!("Err({})", self.label(*i)),
            Ret::Ref(o) => format!("Ref({})", o.map(|i| self.label(i)).unwrap_or_else(|| "None".into())),
            Ret::Ids(v) => format!("Ids[{}]", v.iter().map(|i| self.label(*i)).collect::<Vec<_>>().join(",")),
            Ret::Panic { injected, msg, .. } => format!("Panic({},{})", injected, msg),
            other => format!("{:?}", other),
        }
    }
}

const FOLLOW: [Op; 5] = [Op::PushBack, Op::ExtendFromSlice(2), Op::DebugFmt(0), Op::PopFront, Op::IterCollect(false)];

fn run_variant<const N: usize, P: Pad>(
    ctx: &mut Ctx,
    route: u8,
    start: usize,
    len: usize,
    filling: Filling,
    op: &Op,
    poke_on: bool,
) -> Option<(Vec<String>, usize)> {
    ledger_reset();
    let mut vc = 1u32;
    let paint = match filling {
        Filling::Pat(b) => Some(b),
        _ => None,
    };
    let (mut h, _m) = build::<N, P>(route, start, len, paint, &mut vc);
    // same values in every variant
    for (i, t) in h.buf().iter_mut().enumerate() {
        t.set_val(((i * 7 + 3) % 4) as u32);
    }
    let obs = observe(h.buf_ref());
    if obs.ids.len() != len.min(N) {
        ctx.violation("C01", format!("op=build:{}|ncap={}|wrong_contents", route_name(route), ncls(N)), format!("builder length; case={}", ctx.cur_case));
        std::mem::forget(h);
        return None;
    }
    let mut model = obs.pairs();
    if let Some((s, l)) = measured_layout(h.buf_ref(), &obs) {
        ctx.layouts.insert(hash64(&format!("{}|{}|{}|{}", N, P::NAME, s, l)));
    }
    // garbage sources
    let dead = TokG::<P>::new(3);
    let dead_img = image(&dead);
    let dead_id = dead.id;
    drop(dead);
    let live_tok = TokG::<P>::new_pinned(2);
    let live_img = image(&live_tok);
    let mut lab = Labeler { map: HashMap::new() };
    for (i, id) in obs.ids.iter().enumerate() {
        lab.map.insert(*id, format!("p{}", i));
    }
    lab.map.insert(dead_id, "DEAD".into());
    lab.map.insert(live_tok.id, "LIVECOPY".into());
    let mut poked = 0;
    if poke_on && !P::HEAP {
        match poke(h.buf(), filling, &dead_img, &live_img) {
            Some(b) => poked = b,
            None => {
                if N > 0 && !ctx.notes.iter().any(|n| n.starts_with("geometry")) {
                    ctx.notes.push(format!("geometry self-check failed for N={} T={}: garbage poking disabled", N, P::NAME));
                }
            }
        }
    }
    ctx.count("garbage_bytes_poked", poked as u64);
    let mut trace: Vec<String> = Vec::new();
    let mut env = Env::<N, P>::new(1000);
    let mut all_ops: Vec<&Op> = vec![op];
    if op.is_mutator() {
        all_ops.extend(FOLLOW.iter().take(if ctx.args.flag("lean") { 2 } else { 5 }));
    }
    for (si, o) in all_ops.iter().enumerate() {
        let before_next = ledger_next_id();
        let mon = if si == 0 && !ctx.args.flag("lean") { MonCfg::FULL } else if si == 0 { MonCfg::LEAN } else { MonCfg::LIGHT };
        let out = step(&mut h, &mut model, o, &mut env, ctx, &mon, None, None);
        for (j, a) in env.arg_ids.iter().enumerate() {
            lab.map.entry(a.0).or_insert_with(|| format!("a{}.{}", si, j));
        }
        for (j, m) in env.made.iter().enumerate() {
            lab.map.entry(*m).or_insert_with(|| format!("m{}.{}", si, j));
        }
        let _ = before_next;
        for (k, id) in out.events.iter().zip(out.event_ids.iter()) {
            // No fault is in play here, so every ledger event means that the crate touched or
            // destroyed bytes that are not a live element of the buffer: a planted copy, garbage, or
            // the stale image of an element that was moved out or already destroyed.
            let what = if *id == dead_id {
                "the byte-copy of a destroyed element planted in an unoccupied slot"
            } else if *id == live_tok.id {
                "the byte-copy of a live element held elsewhere, planted in an unoccupied slot"
            } else if k.starts_with("garbage_touched") {
                "garbage bytes"
            } else {
                "the stale image of an element that is no longer in the buffer (moved out or destroyed)"
            };
            let c = ctx.cur_case.clone();
            ctx.violation(
                "C04",
                format!("op={}|ncap={}|touched_non_live_slot:{}", o.name(), ncls(N), k.split('@').next().unwrap_or("")),
                format!("{:?} touched {} ({}); case={}", o, what, k, c),
            );
        }
        let cont: Vec<String> = out.post.iter().map(|(id, v)| format!("{}={}", lab.label(*id), v)).collect();
        trace.push(format!("{}|{}|[{}]|ev{:?}", o.name(), lab.ret(&out.ret), cont.join(","), out.events));
    }
    let leak_ok = matches!(op, Op::Drain(_, _, End::Forget));
    teardown(h, ctx, op.name(), None, leak_ok);
    // the live image's original must not have been destroyed through its copy
    if !ledger_is_live(live_tok.id) {
        trace.push("LIVECOPY-destroyed".into());
        let c = ctx.cur_case.clone();
        ctx.violation("C04", format!("op={}|ncap={}|live_copy_destroyed", op.name(), ncls(N)), format!("the byte-copy of a live element planted in an unoccupied slot was destroyed through the buffer; case={}", c));
    }
    let live_id = live_tok.id;
    drop(live_tok);
    let evs = flush_events_ids(ctx, op.name(), N, "after_case", None);
    if !evs.is_empty() {
        trace.push(format!("late-events{:?}", evs.iter().map(|x| &x.0).collect::<Vec<_>>()));
        for (k, _id) in &evs {
            let c = ctx.cur_case.clone();
            ctx.violation("C04", format!("op={}|ncap={}|touched_non_live_slot:{}", op.name(), ncls(N), k.split('@').next().unwrap_or("")), format!("bytes that are not a live element were touched or destroyed ({}); case={}", k, c));
        }
        let _ = live_id;
    }
    Some((trace, poked))
}

pub fn nonint<const N: usize, P: Pad>(ctx: &mut Ctx) {
    let thorough = ctx.args.thorough;
    let poke_on = !ctx.args.flag("nopoke");
    let lean = ctx.args.flag("lean");
    let mut lean_ctr = 0u64;
    let routes: Vec<u8> = ctx.args.list("routes", &[0, 1, 2, 3, 4]).iter().map(|&x| x as u8).collect();
    let fillings: Vec<Filling> = if poke_on { FILLINGS.to_vec() } else { vec![Filling::Natural] };
    let starts = if N == 0 { 1 } else { N };
    let geo = items_off::<N, P>();
    if N > 0 && geo.is_none() {
        ctx.notes.push(format!("geometry self-check failed for N={} T={}: garbage poking disabled, only natural stale bytes are exercised", N, P::NAME));
    }
    for len in 0..=N {
        let mut ops = op_list(N, len, thorough);
        // the drain variants with Debug of the live drain, and leaked drains
        for a in 0..=len {
            for b in a..=len {
                ops.push(Op::Drain((B::I(a), B::E(b)), vec![Step::B, Step::F], End::Drop));
            }
        }
        for op in ops.iter() {
            if ctx.args.flag("noforget") && matches!(op, Op::Drain(_, _, End::Forget)) {
                continue;
            }
            lean_ctr += 1;
            if lean {
                // the sanitizer is the oracle: thin out the documented-panic cases (unwinding is very
                // slow there)
                let invalid = match op {
                    Op::RangeCollect(r) | Op::RangeMutCollect(r) | Op::Drain(r, _, _) => crate::model::resolve_range(*r, len).is_none(),
                    Op::Index(i) | Op::Write(MutView::IndexMut, i, _) => *i >= len,
                    Op::Swap(i, j) => *i >= len || *j >= len,
                    _ => false,
                };
                if invalid && lean_ctr % 16 != 0 {
                    continue;
                }
            }
            if !ctx.mine_next() {
                continue;
            }
            let opd = format!("{:?}", op);
            let key = hash64(&format!("nonint|{}|{}|{}|{}", N, P::NAME, len, opd));
            let mut reference: Option<(Vec<String>, String)> = None;
            for start in 0..starts {
                for &route in &routes {
                    if N == 0 && route != 0 && route != 3 {
                        continue;
                    }
                    for &filling in &fillings {
                        if (route == 3 || route == 6) != matches!(filling, Filling::Pat(_)) && matches!(filling, Filling::Pat(_)) && false {
                            continue;
                        }
                        if !ctx.begin_case(|| {
                            format!("nonint N={} T={} len={} op={} variant(start={} route={} filling={:?})", N, P::NAME, len, opd, start, route_name(route), filling)
                        }) {
                            continue;
                        }
                        let Some((trace, _poked)) = run_variant::<N, P>(ctx, route, start, len, filling, op, poke_on) else { continue };
                        let vdesc = format!("start={} route={} filling={:?}", start, route_name(route), filling);
                        match &reference {
                            None => reference = Some((trace, vdesc)),
                            Some((rt, rdesc)) => {
                                ctx.count("traces_compared", 1);
                                if *rt != trace {
                                    let i = rt.iter().zip(trace.iter()).position(|(a, b)| a != b).unwrap_or(rt.len().min(trace.len()));
                                    let fcls = match filling {
                                        Filling::Natural => "natural",
                                        Filling::Pat(_) => "pattern",
                                        Filling::DeadCopy => "dead_copy",
                                        Filling::LiveCopy => "live_copy",
                                    };
                                    let c = ctx.cur_case.clone();
                                    ctx.violation(
                                        "C04",
                                        format!("op={}|ncap={}|filling={}|trace_differs", op.name(), ncls(N), fcls),
                                        format!(
                                            "same logical state and call, different observable trace. reference [{}]: {:?} | this [{}]: {:?}; case={}",
                                            rdesc,
                                            rt.get(i),
                                            vdesc,
                                            trace.get(i),
                                            c
                                        ),
                                    );
                                }
                            }
                        }
                    }
                }
            }
            ctx.distinct.insert(key);
        }
        // the owning iterator over every variant (touches only live elements, whatever the garbage)
        for start in 0..starts {
            for &filling in &fillings {
                if !ctx.mine_next() {
                    continue;
                }
                let key = hash64(&format!("nonint-into|{}|{}|{}|{}|{:?}", N, P::NAME, len, start, filling));
                if !ctx.begin_case(|| format!("nonint N={} T={} len={} into_iter start={} filling={:?}", N, P::NAME, len, start, filling)) {
                    continue;
                }
                ledger_reset();
                let mut vc = 1u32;
                let (mut h, model) = build::<N, P>(0, start, len, None, &mut vc);
                let dead = TokG::<P>::new(3);
                let dead_img = image(&dead);
                drop(dead);
                let live_tok = TokG::<P>::new_pinned(2);
                let live_img = image(&live_tok);
                if poke_on {
                    let _ = poke(h.buf(), filling, &dead_img, &live_img);
                }
                into_iter_case(h, &model, &[Step::F, Step::B], Some(1), None, ctx);
                drop(live_tok);
                flush_events(ctx, "into_iter", N, "after_case", None);
                ctx.distinct.insert(key);
            }
        }
    }
}
