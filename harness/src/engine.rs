//! The Tok engine: builds buffers in a given layout through the public API, executes one
//! operation of the real crate under all monitors, and judges it against the model.

use crate::alloc::{self, Suspend};
use crate::model::{self, Expect, Item, XRet};
use crate::ops::*;
use crate::tok::*;
use crate::util::Ctx;
use circular_buffer::CircularBuffer;
use std::cell::RefCell;
use std::collections::hash_map::DefaultHasher;
use std::collections::HashMap;
use std::hash::{Hash, Hasher};
use std::mem::{self, MaybeUninit};
use std::ops::Bound;
use std::panic::{catch_unwind, AssertUnwindSafe};

pub type Buf<const N: usize, P> = CircularBuffer<N, TokG<P>>;

const CANARY: u64 = 0xC0FF_EE5A_FE5A_FE11;

#[repr(C)]
pub struct Guarded<const N: usize, P: Pad> {
    pre: [u64; 8],
    pub buf: Buf<N, P>,
    post: [u64; 8],
}

pub enum Holder<const N: usize, P: Pad> {
    Inline(Guarded<N, P>),
    Boxed(Box<Buf<N, P>>),
}

impl<const N: usize, P: Pad> Holder<N, P> {
    pub fn new_inline() -> Self {
        Holder::Inline(Guarded { pre: [CANARY; 8], buf: CircularBuffer::new(), post: [CANARY; 8] })
    }
    pub fn new_boxed(paint: Option<u8>) -> Self {
        if !P::HEAP {
            alloc::set_paint(paint);
        }
        let b = cb_boxed::<N, P>();
        alloc::set_paint(None);
        Holder::Boxed(b)
    }
    #[inline]
    pub fn buf(&mut self) -> &mut Buf<N, P> {
        match self {
            Holder::Inline(g) => &mut g.buf,
            Holder::Boxed(b) => &mut **b,
        }
    }
    #[inline]
    pub fn buf_ref(&self) -> &Buf<N, P> {
        match self {
            Holder::Inline(g) => &g.buf,
            Holder::Boxed(b) => &**b,
        }
    }
    pub fn canaries_ok(&self) -> bool {
        match self {
            Holder::Inline(g) => g.pre.iter().chain(g.post.iter()).all(|&c| c == CANARY),
            Holder::Boxed(_) => true,
        }
    }
    pub fn is_boxed(&self) -> bool {
        matches!(self, Holder::Boxed(_))
    }
}

/// `CircularBuffer::boxed()` where the crate offers it (feature alloc), a plain Box otherwise
pub fn cb_boxed<const N: usize, P: Pad>() -> Box<Buf<N, P>> {
    #[cfg(feature = "has-alloc")]
    {
        CircularBuffer::boxed()
    }
    #[cfg(not(feature = "has-alloc"))]
    {
        Box::new(CircularBuffer::new())
    }
}

/// `to_vec()` where the crate offers it (feature alloc), element-wise clones otherwise
pub fn cb_to_vec<const N: usize, P: Pad>(buf: &Buf<N, P>) -> Vec<TokG<P>> {
    #[cfg(feature = "has-alloc")]
    {
        buf.to_vec()
    }
    #[cfg(not(feature = "has-alloc"))]
    {
        buf.iter().cloned().collect()
    }
}

// ---------------------------------------------------------------------------------------------
// Geometry: where the slots are, measured from element addresses
// ---------------------------------------------------------------------------------------------

thread_local! {
    static GEO: RefCell<HashMap<(usize, usize, usize), Option<usize>>> = RefCell::new(HashMap::new());
}

/// byte offset of slot 0 inside `CircularBuffer<N, TokG<P>>`, or None if the self-check fails
pub fn items_off<const N: usize, P: Pad>() -> Option<usize> {
    let key = (N, mem::size_of::<TokG<P>>(), mem::align_of::<TokG<P>>());
    if let Some(v) = GEO.with(|g| g.borrow().get(&key).copied()) {
        return v;
    }
    let v = calibrate::<N, P>();
    GEO.with(|g| g.borrow_mut().insert(key, v));
    v
}

fn calibrate<const N: usize, P: Pad>() -> Option<usize> {
    if N == 0 || N > 4096 {
        return None;
    }
    // uses its own ledger ids; callers calibrate before a case starts or accept the id shift
    let esz = mem::size_of::<TokG<P>>();
    let mut b: Box<Buf<N, P>> = cb_boxed::<N, P>();
    for _ in 0..N {
        b.push_back(TokG::new(0));
    }
    let base = &*b as *const Buf<N, P> as usize;
    let mut addrs: Vec<usize> = b.iter().map(|t| t as *const TokG<P> as usize).collect();
    addrs.sort_unstable();
    if addrs.len() != N {
        return None;
    }
    let off = addrs[0].checked_sub(base)?;
    for (i, a) in addrs.iter().enumerate() {
        if *a != base + off + i * esz {
            return None;
        }
    }
    if off + N * esz > mem::size_of::<Buf<N, P>>() {
        return None;
    }
    Some(off)
}

#[derive(Clone, Debug, Default)]
pub struct Obs {
    pub ids: Vec<u64>,
    pub vals: Vec<u32>,
    pub addrs: Vec<usize>,
}

impl Obs {
    pub fn pairs(&self) -> Vec<(u64, u32)> {
        self.ids.iter().copied().zip(self.vals.iter().copied()).collect()
    }
}

pub fn observe<const N: usize, P: Pad>(buf: &Buf<N, P>) -> Obs {
    let mut o = Obs::default();
    for t in buf.iter() {
        let (id, val) = t.peek("observe.iter");
        o.ids.push(id);
        o.vals.push(val);
        o.addrs.push(t as *const TokG<P> as usize);
    }
    o
}

/// (front slot, len) measured from addresses; None if unknown
pub fn measured_layout<const N: usize, P: Pad>(buf: &Buf<N, P>, obs: &Obs) -> Option<(usize, usize)> {
    let off = items_off::<N, P>()?;
    if obs.addrs.is_empty() {
        return None;
    }
    let base = buf as *const Buf<N, P> as usize;
    let esz = mem::size_of::<TokG<P>>();
    let rel = obs.addrs[0].checked_sub(base + off)?;
    if rel % esz != 0 || rel / esz >= N {
        return None;
    }
    Some((rel / esz, obs.addrs.len()))
}

pub fn layout_class(n: usize, lay: Option<(usize, usize)>, len: usize) -> &'static str {
    if n == 0 {
        return "n0";
    }
    if len == 0 {
        return "empty";
    }
    match lay {
        None => "unknown",
        Some((s, l)) => {
            if l == n {
                if s == 0 {
                    "full_contig"
                } else {
                    "full_wrapped"
                }
            } else if s + l < n {
                "contig"
            } else if s + l == n {
                "contig_to_end"
            } else {
                "wrapped"
            }
        }
    }
}

pub fn ncls(n: usize) -> &'static str {
    match n {
        0 => "0",
        1 => "1",
        _ => "n",
    }
}

// ---------------------------------------------------------------------------------------------
// State builder
// ---------------------------------------------------------------------------------------------

pub const ROUTES_INLINE: [u8; 5] = [0, 1, 2, 4, 5];
pub const ROUTES_ALL: [u8; 7] = [0, 1, 2, 3, 4, 5, 6];

pub fn route_name(r: u8) -> &'static str {
    match r {
        0 => "pushback_walk",
        1 => "pushfront_walk",
        2 => "fill_rotate_back",
        3 => "boxed_pushback_walk",
        4 => "overfill_drain",
        5 => "fill_rotate_front",
        6 => "boxed_pushfront_walk",
        _ => "?",
    }
}

#[inline]
pub fn next_val(ctr: &mut u32) -> u32 {
    *ctr = ctr.wrapping_mul(1_103_515_245).wrapping_add(12345);
    (*ctr >> 16) % 4
}

/// Build a buffer whose front element sits in slot `start` (for N > 0) with `len` elements, through
/// the public API only. Returns the holder and the model of its contents.
pub fn build<const N: usize, P: Pad>(
    route: u8,
    start: usize,
    len: usize,
    paint: Option<u8>,
    vc: &mut u32,
) -> (Holder<N, P>, Vec<(u64, u32)>) {
    let mut h: Holder<N, P> =
        if route == 3 || route == 6 { Holder::new_boxed(paint) } else { Holder::new_inline() };
    let mut m: Vec<(u64, u32)> = Vec::new();
    if N == 0 {
        return (h, m);
    }
    let start = start % N;
    let len = len.min(N);
    let b = h.buf();
    let mk = |vc: &mut u32| -> TokG<P> { TokG::new(next_val(vc)) };
    match route {
        0 | 3 | 4 => {
            for _ in 0..start {
                b.push_back(mk(vc));
                drop(b.pop_front());
            }
            let l2 = if route == 4 && len >= 1 { (len + 2).min(N) } else { len };
            for _ in 0..l2 {
                let t = mk(vc);
                m.push((t.id, t.val));
                b.push_back(t);
            }
            if l2 > len {
                let k = l2 - len;
                drop(b.drain(1..1 + k));
                m.drain(1..1 + k);
            }
        }
        1 | 6 => {
            let s2 = (start + len) % N;
            let k = (N - s2) % N;
            for _ in 0..k {
                b.push_front(mk(vc));
            }
            for _ in 0..k {
                drop(b.pop_back());
            }
            for _ in 0..len {
                let t = mk(vc);
                m.insert(0, (t.id, t.val));
                b.push_front(t);
            }
        }
        2 => {
            let mut all: Vec<(u64, u32)> = Vec::new();
            for _ in 0..N + start {
                let t = mk(vc);
                all.push((t.id, t.val));
                drop(b.push_back(t));
            }
            m = all[start..].to_vec();
            b.truncate_back(len);
            m.truncate(len);
        }
        _ => {
            // 5: fill then rotate with push_front
            let mut all: std::collections::VecDeque<(u64, u32)> = Default::default();
            for _ in 0..N {
                let t = mk(vc);
                all.push_back((t.id, t.val));
                b.push_back(t);
            }
            for _ in 0..(N - start) % N {
                let t = mk(vc);
                all.pop_back();
                all.push_front((t.id, t.val));
                drop(b.push_front(t));
            }
            m = all.into_iter().collect();
            b.truncate_back(len);
            m.truncate(len);
        }
    }
    (h, m)
}

// ---------------------------------------------------------------------------------------------
// Garbage injection into unoccupied slots
// ---------------------------------------------------------------------------------------------

#[derive(Clone, Copy, Debug, PartialEq, Eq, Hash)]
pub enum Filling {
    Natural,
    Pat(u8),
    DeadCopy,
    LiveCopy,
}

pub const FILLINGS: [Filling; 6] = [
    Filling::Natural,
    Filling::Pat(0x00),
    Filling::Pat(0xFF),
    Filling::Pat(0x5A),
    Filling::DeadCopy,
    Filling::LiveCopy,
];

/// Overwrite every slot that holds no element. Returns number of bytes poked, or None if the
/// geometry self-check failed (then nothing is written).
pub fn poke<const N: usize, P: Pad>(
    buf: &mut Buf<N, P>,
    filling: Filling,
    dead_img: &MaybeUninit<TokG<P>>,
    live_img: &MaybeUninit<TokG<P>>,
) -> Option<usize> {
    if P::HEAP || N == 0 {
        return None;
    }
    let off = items_off::<N, P>()?;
    let esz = mem::size_of::<TokG<P>>();
    let base = buf as *mut Buf<N, P> as usize;
    let mut occ = vec![false; N];
    for t in buf.iter() {
        let a = t as *const TokG<P> as usize;
        let rel = a.checked_sub(base + off)?;
        if rel % esz != 0 || rel / esz >= N {
            return None;
        }
        occ[rel / esz] = true;
    }
    let p = buf as *mut Buf<N, P> as *mut u8;
    let mut bytes = 0;
    for (i, o) in occ.iter().enumerate() {
        if *o {
            continue;
        }
        // SAFETY: slot i lies inside the buffer object (self-checked geometry), holds no live
        // element, and its type is MaybeUninit<T>: any bytes are valid there.
        unsafe {
            let dst = p.add(off + i * esz);
            match filling {
                Filling::Natural => {}
                Filling::Pat(b) => std::ptr::write_bytes(dst, b, esz),
                Filling::DeadCopy => std::ptr::copy_nonoverlapping(
                    dead_img as *const MaybeUninit<TokG<P>>,
                    dst as *mut MaybeUninit<TokG<P>>,
                    1,
                ),
                Filling::LiveCopy => std::ptr::copy_nonoverlapping(
                    live_img as *const MaybeUninit<TokG<P>>,
                    dst as *mut MaybeUninit<TokG<P>>,
                    1,
                ),
            }
        }
        if filling != Filling::Natural {
            bytes += esz;
        }
    }
    Some(bytes)
}

/// byte image of a token (does not take ownership)
pub fn image<P: Pad>(t: &TokG<P>) -> MaybeUninit<TokG<P>> {
    let mut m = MaybeUninit::<TokG<P>>::uninit();
    unsafe {
        std::ptr::copy_nonoverlapping(
            t as *const TokG<P> as *const MaybeUninit<TokG<P>>,
            &mut m as *mut MaybeUninit<TokG<P>>,
            1,
        );
    }
    m
}

// ---------------------------------------------------------------------------------------------
// Execution of one operation on the real buffer
// ---------------------------------------------------------------------------------------------

#[derive(Clone, Debug, PartialEq)]
pub enum Ret {
    Unit,
    Opt(Option<u64>),
    Res(Result<(), u64>),
    Ref(Option<u64>),
    Ids(Vec<u64>),
    Text(String),
    Quad(usize, bool, bool, usize),
    Bool(bool),
    Panic { injected: bool, msg: String, loc: String },
}

pub struct Env<const N: usize, P: Pad> {
    pub args: Vec<TokG<P>>,
    pub arg_ids: Vec<(u64, u32)>,
    pub returned: Vec<TokG<P>>,
    pub made: Vec<u64>,
    pub vc: u32,
    /// lengths reported by iterators / drains at each step (len, size_hint lo, hi)
    pub aux: Vec<(usize, usize, Option<usize>)>,
    pub ref_addrs: Vec<usize>,
    pub src: Option<(Holder<N, P>, Vec<(u64, u32)>)>,
    pub second_slice_len: Option<usize>,
    pub counts: alloc::Counts,
    pub fp: Fp,
}

impl<const N: usize, P: Pad> Env<N, P> {
    pub fn new(vc: u32) -> Self {
        Env {
            args: Vec::new(),
            arg_ids: Vec::new(),
            returned: Vec::new(),
            made: Vec::new(),
            vc,
            aux: Vec::new(),
            ref_addrs: Vec::new(),
            src: None,
            second_slice_len: None,
            counts: Default::default(),
            fp: Fp::OFF,
        }
    }
    pub fn prepare(&mut self, op: &Op) {
        self.args.clear();
        self.arg_ids.clear();
        self.returned.clear();
        self.made.clear();
        self.aux.clear();
        self.ref_addrs.clear();
        self.second_slice_len = None;
        self.src = None;
        for _ in 0..op.n_args() {
            let t = TokG::<P>::new(next_val(&mut self.vc));
            self.arg_ids.push((t.id, t.val));
            self.args.push(t);
        }
        self.returned.reserve(64);
        self.made.reserve(N + 2);
        if let Op::CloneFrom(d) = op {
            let (h, m) = build::<N, P>(d.route, d.start, d.len, None, &mut self.vc);
            self.arg_ids = m.clone();
            self.src = Some((h, m));
        }
    }
}

pub struct FeedIter<'a, P: Pad> {
    pub items: &'a mut [Option<TokG<P>>],
    pub pos: usize,
    /// 0 exact, 1 = (0, None), 2 = (0, Some(much more)), 3 = (half, None): all legal hints
    pub hint: u8,
}
impl<P: Pad> Iterator for FeedIter<'_, P> {
    type Item = TokG<P>;
    fn next(&mut self) -> Option<TokG<P>> {
        fp_hit(FpKind::IterNext);
        if self.pos >= self.items.len() {
            self.pos += 1;
            // hint 4: an un-fused source. It ends with its first None; a consumer that keeps polling
            // gets "poison" elements that are not part of the sequence (at most 3 of them)
            if self.hint == 4 && self.pos > self.items.len() + 1 && self.pos <= self.items.len() + 4 {
                let _s = Suspend::new();
                return Some(TokG::new(77));
            }
            return None;
        }
        let r = self.items[self.pos].take();
        self.pos += 1;
        r
    }
    fn size_hint(&self) -> (usize, Option<usize>) {
        let r = self.items.len() - self.pos.min(self.items.len());
        match self.hint {
            1 | 4 => (0, None),
            2 => (0, Some(2 * r + 7)),
            3 => (r / 2, None),
            _ => (r, Some(r)),
        }
    }
}

/// run a crate call with allocator attribution on
macro_rules! cb {
    ($e:expr) => {{
        alloc::scope_resume();
        let r = $e;
        alloc::scope_pause();
        r
    }};
}

/// expand `$body` with `$rr` bound to the native range type denoting `$r`
macro_rules! with_range {
    ($r:expr, |$rr:ident| $body:expr) => {
        match $r {
            (B::I(a), B::E(b)) => {
                let $rr = a..b;
                $body
            }
            (B::I(a), B::I(b)) => {
                let $rr = a..=b;
                $body
            }
            (B::U, B::E(b)) => {
                let $rr = ..b;
                $body
            }
            (B::U, B::I(b)) => {
                let $rr = ..=b;
                $body
            }
            (B::I(a), B::U) => {
                let $rr = a..;
                $body
            }
            (B::U, B::U) => {
                let $rr = ..;
                $body
            }
            (s, e) => {
                let cv = |b: B| match b {
                    B::I(x) => std::ops::Bound::Included(x),
                    B::E(x) => std::ops::Bound::Excluded(x),
                    B::U => std::ops::Bound::Unbounded,
                };
                let $rr = (cv(s), cv(e));
                $body
            }
        }
    };
}
pub(crate) use with_range;

fn peek_ref<P: Pad>(r: Option<&TokG<P>>, addrs: &mut Vec<usize>) -> Ret {
    match r {
        None => Ret::Ref(None),
        Some(t) => {
            let (id, _) = t.peek("ref");
            let _s = Suspend::new();
            addrs.push(t as *const TokG<P> as usize);
            Ret::Ref(Some(id))
        }
    }
}

fn collect_refs<'a, P: Pad>(
    it: impl Iterator<Item = &'a TokG<P>>,
    addrs: &mut Vec<usize>,
) -> Vec<u64> {
    let mut ids = Vec::new();
    for t in it {
        let (id, _) = t.peek("collect");
        let _s = Suspend::new();
        ids.push(id);
        addrs.push(t as *const TokG<P> as usize);
    }
    ids
}

fn exec_inner<const N: usize, P: Pad>(buf: &mut Buf<N, P>, op: &Op, env: &mut Env<N, P>) -> Ret {
    match op {
        Op::PushBack => {
            let a = env.args.pop().unwrap();
            let r = cb!(buf.push_back(a));
            ret_opt(r, env)
        }
        Op::PushFront => {
            let a = env.args.pop().unwrap();
            let r = cb!(buf.push_front(a));
            ret_opt(r, env)
        }
        Op::TryPushBack => {
            let a = env.args.pop().unwrap();
            match cb!(buf.try_push_back(a)) {
                Ok(()) => Ret::Res(Ok(())),
                Err(t) => {
                    let id = t.peek("ret").0;
                    env.returned.push(t);
                    Ret::Res(Err(id))
                }
            }
        }
        Op::TryPushFront => {
            let a = env.args.pop().unwrap();
            match cb!(buf.try_push_front(a)) {
                Ok(()) => Ret::Res(Ok(())),
                Err(t) => {
                    let id = t.peek("ret").0;
                    env.returned.push(t);
                    Ret::Res(Err(id))
                }
            }
        }
        Op::PopBack => {
            let r = cb!(buf.pop_back());
            ret_opt(r, env)
        }
        Op::PopFront => {
            let r = cb!(buf.pop_front());
            ret_opt(r, env)
        }
        Op::Remove(i) => {
            let r = cb!(buf.remove(*i));
            ret_opt(r, env)
        }
        Op::Swap(i, j) => {
            cb!(buf.swap(*i, *j));
            Ret::Unit
        }
        Op::SwapRemoveBack(i) => {
            let r = cb!(buf.swap_remove_back(*i));
            ret_opt(r, env)
        }
        Op::SwapRemoveFront(i) => {
            let r = cb!(buf.swap_remove_front(*i));
            ret_opt(r, env)
        }
        Op::TruncateBack(l) => {
            cb!(buf.truncate_back(*l));
            Ret::Unit
        }
        Op::TruncateFront(l) => {
            cb!(buf.truncate_front(*l));
            Ret::Unit
        }
        Op::Clear => {
            cb!(buf.clear());
            Ret::Unit
        }
        Op::Extend(_) => {
            let mut items: Vec<Option<TokG<P>>> = mem::take(&mut env.args).into_iter().map(Some).collect();
            let it = FeedIter { items: &mut items[..], pos: 0, hint: 0 };
            cb!(buf.extend(it));
            Ret::Unit
        }
        Op::ExtendHinted(_, hint) => {
            let mut items: Vec<Option<TokG<P>>> = mem::take(&mut env.args).into_iter().map(Some).collect();
            let it = FeedIter { items: &mut items[..], pos: 0, hint: *hint };
            cb!(buf.extend(it));
            Ret::Unit
        }
        Op::ExtendFromSlice(_) => {
            cb!(buf.extend_from_slice(&env.args[..]));
            Ret::Unit
        }
        Op::Fill => {
            let a = env.args.pop().unwrap();
            cb!(buf.fill(a));
            Ret::Unit
        }
        Op::FillSpare => {
            let a = env.args.pop().unwrap();
            cb!(buf.fill_spare(a));
            Ret::Unit
        }
        Op::FillWith => {
            let made = &mut env.made;
            let vc = &mut env.vc;
            cb!(buf.fill_with(|| {
                fp_hit(FpKind::Closure);
                let t = TokG::<P>::new(next_val(vc));
                let _s = Suspend::new();
                made.push(t.id);
                t
            }));
            Ret::Unit
        }
        Op::FillSpareWith => {
            let made = &mut env.made;
            let vc = &mut env.vc;
            cb!(buf.fill_spare_with(|| {
                fp_hit(FpKind::Closure);
                let t = TokG::<P>::new(next_val(vc));
                let _s = Suspend::new();
                made.push(t.id);
                t
            }));
            Ret::Unit
        }
        Op::Drain(r, script, end) => {
            let mut ids = Vec::with_capacity(script.len());
            with_range!(*r, |rr| {
                let mut d = cb!(buf.drain(rr));
                env.aux.push((cb!(d.len()), cb!(d.size_hint()).0, cb!(d.size_hint()).1));
                for s in script {
                    let x = cb!(apply_step(&mut d, *s));
                    match x {
                        Some(t) => {
                            ids.push(t.peek("drain.yield").0);
                            env.returned.push(t);
                        }
                        None => ids.push(0),
                    }
                    env.aux.push((cb!(d.len()), cb!(d.size_hint()).0, cb!(d.size_hint()).1));
                    if script.len() <= 3 {
                        // Debug of a live drain touches exactly the not-yet-yielded elements
                        let _s = Suspend::new();
                        let _ = format!("{:?}", d);
                        // ... and formatting into a sink that fails part-way must leave it intact
                        #[cfg(feature = "has-std")]
                        {
                            use std::io::Write as _;
                            let mut sink = [0u8; 2];
                            let _ = write!(&mut sink[..], "{:?}", d);
                        }
                    }
                }
                match end {
                    End::Drop => cb!(drop(d)),
                    End::Forget => mem::forget(d),
                }
            });
            Ret::Ids(ids)
        }
        Op::MakeContiguous(sort) => {
            let s = cb!(buf.make_contiguous());
            let ids = collect_refs(s.iter(), &mut env.ref_addrs);
            if *sort {
                s.sort();
            }
            Ret::Ids(ids)
        }
        Op::Write(view, pos, mode) => {
            let len = buf.len();
            let pos = *pos;
            let r: Option<&mut TokG<P>> = match view {
                MutView::GetMut => cb!(buf.get_mut(pos)),
                MutView::NthFrontMut => cb!(buf.nth_front_mut(pos)),
                MutView::NthBackMut => cb!(buf.nth_back_mut(pos)),
                MutView::FrontMut => cb!(buf.front_mut()),
                MutView::BackMut => cb!(buf.back_mut()),
                MutView::IndexMut => Some(cb!(&mut buf[pos])),
                MutView::IterMut => cb!(buf.iter_mut().nth(pos)),
                MutView::IterMutRev => {
                    if pos < len {
                        cb!(buf.iter_mut().rev().nth(len - 1 - pos))
                    } else {
                        cb!(buf.iter_mut().rev().nth(pos))
                    }
                }
                MutView::RangeMut => {
                    if pos < len {
                        cb!(buf.range_mut(pos..=pos).next())
                    } else {
                        cb!(buf.range_mut(..).nth(pos))
                    }
                }
                MutView::AsMutSlices => {
                    let (a, b) = cb!(buf.as_mut_slices());
                    a.iter_mut().chain(b.iter_mut()).nth(pos)
                }
                MutView::MakeContiguous => cb!(buf.make_contiguous()).get_mut(pos),
            };
            match r {
                None => Ret::Ref(None),
                Some(t) => {
                    let id = t.peek("mutref").0;
                    {
                        let _s = Suspend::new();
                        env.ref_addrs.push(t as *const TokG<P> as usize);
                    }
                    match mode {
                        WMode::Peek => {}
                        WMode::SetVal(v) => t.set_val(*v),
                        WMode::Replace => {
                            let a = env.args.pop().unwrap();
                            *t = a;
                        }
                    }
                    Ret::Ref(Some(id))
                }
            }
        }
        Op::CloneFrom(_) => {
            let src = env.src.as_ref().unwrap().0.buf_ref();
            cb!(buf.clone_from(src));
            Ret::Unit
        }
        Op::Quad => Ret::Quad(cb!(buf.len()), cb!(buf.is_empty()), cb!(buf.is_full()), cb!(buf.capacity())),
        Op::Get(i) => peek_ref(cb!(buf.get(*i)), &mut env.ref_addrs),
        Op::NthFront(i) => peek_ref(cb!(buf.nth_front(*i)), &mut env.ref_addrs),
        Op::NthBack(i) => peek_ref(cb!(buf.nth_back(*i)), &mut env.ref_addrs),
        Op::Front => peek_ref(cb!(buf.front()), &mut env.ref_addrs),
        Op::Back => peek_ref(cb!(buf.back()), &mut env.ref_addrs),
        Op::Index(i) => peek_ref(Some(cb!(&buf[*i])), &mut env.ref_addrs),
        Op::IterCollect(rev) => {
            let it = cb!(buf.iter());
            let ids = if *rev {
                collect_refs(it.rev(), &mut env.ref_addrs)
            } else {
                collect_refs(it, &mut env.ref_addrs)
            };
            Ret::Ids(ids)
        }
        Op::IterMutCollect(rev) => {
            let it = cb!(buf.iter_mut());
            let ids = if *rev {
                collect_refs(it.rev().map(|t| &*t), &mut env.ref_addrs)
            } else {
                collect_refs(it.map(|t| &*t), &mut env.ref_addrs)
            };
            Ret::Ids(ids)
        }
        Op::RangeCollect(r) => {
            let ids = with_range!(*r, |rr| {
                let it = cb!(buf.range(rr));
                collect_refs(it, &mut env.ref_addrs)
            });
            Ret::Ids(ids)
        }
        Op::RangeMutCollect(r) => {
            let ids = with_range!(*r, |rr| {
                let it = cb!(buf.range_mut(rr));
                collect_refs(it.map(|t| &*t), &mut env.ref_addrs)
            });
            Ret::Ids(ids)
        }
        Op::AsSlices => {
            let (a, b) = cb!(buf.as_slices());
            env.second_slice_len = Some(b.len());
            Ret::Ids(collect_refs(a.iter().chain(b.iter()), &mut env.ref_addrs))
        }
        Op::AsMutSlices => {
            let (a, b) = cb!(buf.as_mut_slices());
            env.second_slice_len = Some(b.len());
            Ret::Ids(collect_refs(a.iter().chain(b.iter()), &mut env.ref_addrs))
        }
        Op::ToVec => {
            let v = cb!(cb_to_vec(buf));
            let _s = Suspend::new();
            let mut ids = Vec::new();
            for t in v {
                ids.push(t.peek("to_vec").0);
                env.returned.push(t);
            }
            Ret::Ids(ids)
        }
        Op::CloneBuf => {
            let c = cb!(buf.clone());
            let ids = collect_refs(c.iter(), &mut env.ref_addrs);
            env.ref_addrs.clear();
            let same_len = c.len() == ids.len();
            let _s = Suspend::new();
            drop(c);
            if same_len {
                Ret::Ids(ids)
            } else {
                Ret::Ids(vec![])
            }
        }
        Op::DebugFmt(spec) => {
            let _s = Suspend::new(); // formatting into a String allocates on the harness side
            Ret::Text(model::fmt_spec(buf, *spec))
        }
        Op::HashSelf => {
            let c = {
                let _s = Suspend::new();
                rotated_clone(buf)
            };
            let mut h1 = DefaultHasher::new();
            cb!(buf.hash(&mut h1));
            let mut h2 = DefaultHasher::new();
            cb!(c.hash(&mut h2));
            let _s = Suspend::new();
            drop(c);
            Ret::Bool(h1.finish() == h2.finish())
        }
        Op::EqSelf => {
            let (c, v) = {
                let _s = Suspend::new();
                (rotated_clone(buf), cb_to_vec(buf))
            };
            let bb: &Buf<N, P> = &*buf;
            let r = cb!(*bb == *c) && cb!(*c == *bb) && cb!(*bb == v[..]) && cb!(*bb == &v[..]);
            let _s = Suspend::new();
            drop(c);
            drop(v);
            Ret::Bool(r)
        }
        Op::CmpSelf => {
            let c = {
                let _s = Suspend::new();
                rotated_clone(buf)
            };
            let bb: &Buf<N, P> = &*buf;
            let r = cb!(Ord::cmp(bb, &*c)) == std::cmp::Ordering::Equal
                && cb!(PartialOrd::partial_cmp(bb, &*c)) == Some(std::cmp::Ordering::Equal);
            let _s = Suspend::new();
            drop(c);
            Ret::Bool(r)
        }
    }
}

/// an equal buffer in a different layout (front moved by one slot when there is room)
fn rotated_clone<const N: usize, P: Pad>(buf: &Buf<N, P>) -> Box<Buf<N, P>> {
    let mut c: Box<Buf<N, P>> = cb_boxed::<N, P>();
    if N > 0 {
        c.push_back(TokG::new(0));
        drop(c.pop_front());
    }
    for t in buf.iter() {
        c.push_back(t.clone());
    }
    c
}

fn ret_opt<const N: usize, P: Pad>(r: Option<TokG<P>>, env: &mut Env<N, P>) -> Ret {
    match r {
        None => Ret::Opt(None),
        Some(t) => {
            let id = t.peek("ret").0;
            let _s = Suspend::new();
            env.returned.push(t);
            Ret::Opt(Some(id))
        }
    }
}

/// Execute `op` on the real buffer. `fault`: arm a failpoint for the duration of the call
/// (fire_at = 0 counts only).
pub fn exec<const N: usize, P: Pad>(
    buf: &mut Buf<N, P>,
    op: &Op,
    env: &mut Env<N, P>,
    fault: Option<(FpKind, u32)>,
) -> Ret {
    alloc::scope_begin();
    alloc::scope_pause();
    if let Some((k, at)) = fault {
        fp_arm(k, at);
    }
    let r = catch_unwind(AssertUnwindSafe(|| exec_inner(buf, op, env)));
    env.fp = fp_disarm();
    env.counts = alloc::scope_end();
    match r {
        Ok(ret) => ret,
        Err(payload) => {
            if payload.downcast_ref::<Injected>().is_some() {
                Ret::Panic { injected: true, msg: String::new(), loc: String::new() }
            } else {
                let (msg, loc) = take_last_panic().unwrap_or_default();
                Ret::Panic { injected: false, msg, loc }
            }
        }
    }
}

// ---------------------------------------------------------------------------------------------
// Judging one step
// ---------------------------------------------------------------------------------------------

#[derive(Clone, Copy, Debug)]
pub struct MonCfg {
    pub views: bool,     // cross-check all read views after the call
    pub mut_views: bool, // and the mutable twins
    pub reloc: bool,
    pub allocs: bool,
    pub trace: bool,
    pub full_conservation: bool,
}

impl MonCfg {
    pub const FULL: MonCfg = MonCfg {
        views: true,
        mut_views: true,
        reloc: true,
        allocs: true,
        trace: false,
        full_conservation: true,
    };
    /// sanitizer runs: the sanitizer is the oracle, keep only the cheap monitors
    pub const LEAN: MonCfg = MonCfg {
        views: false,
        mut_views: false,
        reloc: false,
        allocs: false,
        trace: false,
        full_conservation: true,
    };
    pub fn main(lean: bool) -> MonCfg {
        if lean {
            MonCfg::LEAN
        } else {
            MonCfg::FULL
        }
    }
    pub const LIGHT: MonCfg = MonCfg {
        views: false,
        mut_views: false,
        reloc: true,
        allocs: true,
        trace: false,
        full_conservation: false,
    };
}

pub struct StepOut {
    pub panicked: bool,
    pub injected: bool,
    pub fp_count: u32,
    pub ret: Ret,
    pub relocations: usize,
    pub pre_layout: Option<(usize, usize)>,
    pub resynced: bool,
    pub events: Vec<String>,
    pub event_ids: Vec<u64>,
    pub post: Vec<(u64, u32)>,
}

fn sig(op: &Op, n: usize, lay: &'static str, kind: &str) -> String {
    format!("op={}|ncap={}|lay={}|{}", op.name(), ncls(n), lay, kind)
}

fn ev_kind(e: &Ev) -> String {
    match e {
        Ev::DoubleDrop(_) => "double_drop".to_string(),
        Ev::StaleTouched(_, s) => format!("stale_touched@{}", s),
        Ev::GarbageTouched(_, _, s) => format!("garbage_touched@{}", s),
    }
}

/// report ledger events accumulated so far
pub fn flush_events(ctx: &mut Ctx, opname: &str, n: usize, lay: &'static str, fault: Option<FpKind>) -> Vec<String> {
    flush_events_ids(ctx, opname, n, lay, fault).into_iter().map(|x| x.0).collect()
}

/// as `flush_events`, also returning the token id each event is about
pub fn flush_events_ids(ctx: &mut Ctx, opname: &str, n: usize, lay: &'static str, fault: Option<FpKind>) -> Vec<(String, u64)> {
    let evs = ledger_take_events();
    let kinds: Vec<(String, u64)> = evs
        .iter()
        .map(|e| {
            (
                ev_kind(e),
                match e {
                    Ev::DoubleDrop(i) | Ev::StaleTouched(i, _) | Ev::GarbageTouched(i, _, _) => *i,
                },
            )
        })
        .collect();
    for e in evs {
        let prop = match (&e, fault) {
            (Ev::DoubleDrop(_), Some(FpKind::Drop)) => "C05",
            (Ev::DoubleDrop(_), Some(_)) => "C06",
            (Ev::DoubleDrop(_), None) => "C03",
            (Ev::StaleTouched(..), Some(FpKind::Drop)) => "C05",
            (Ev::StaleTouched(..), Some(_)) => "C06",
            (Ev::StaleTouched(..), None) => "C03",
            (Ev::GarbageTouched(..), _) => "C04",
        };
        let f = fault.map(|k| k.name()).unwrap_or("none");
        ctx.violation(
            prop,
            format!("op={}|ncap={}|lay={}|fault={}|{}", opname, ncls(n), lay, f, ev_kind(&e)),
            format!("{:?} case={}", e, ctx.cur_case),
        );
        ctx.count("ledger_events", 1);
        if ctx.args.flag("c04") {
            // by the letter of C04 every such event is an operation touching or destroying a slot
            // that does not hold a live element, whatever made the crate lose track of it
            ctx.violation(
                "C04",
                format!("op={}|ncap={}|lay={}|fault={}|touched_non_live_slot:{}", opname, ncls(n), lay, f, ev_kind(&e).split('@').next().unwrap_or("")),
                format!("{:?} case={}", e, ctx.cur_case),
            );
        }
    }
    kinds
}

/// All read views must agree with the front-to-back observation.
pub fn check_views<const N: usize, P: Pad>(buf: &Buf<N, P>, obs: &Obs, ctx: &mut Ctx, opname: &str) {
    let len = obs.ids.len();
    let mut bad = |ctx: &mut Ctx, what: &str, d: String| {
        ctx.violation("C07", format!("after={}|ncap={}|view={}", opname, ncls(N), what), d);
    };
    let mut compared = 0u64;
    if buf.len() != len {
        bad(ctx, "len", format!("len()={} iter yields {}", buf.len(), len));
    }
    if buf.is_empty() != (len == 0) {
        bad(ctx, "is_empty", format!("is_empty()={} len={}", buf.is_empty(), len));
    }
    if buf.is_full() != (len == N) {
        bad(ctx, "is_full", format!("is_full()={} len={} N={}", buf.is_full(), len, N));
    }
    if buf.capacity() != N {
        bad(ctx, "capacity", format!("capacity()={} N={}", buf.capacity(), N));
    }
    let it = buf.iter();
    if it.len() != len || it.size_hint() != (len, Some(len)) {
        bad(ctx, "iter.len", format!("iter().len()={} size_hint={:?} len={}", it.len(), it.size_hint(), len));
    }
    let key = |t: &TokG<P>| (t.peek("view").0, t as *const TokG<P> as usize);
    let mut positions: Vec<usize> = (0..len + 2).collect();
    positions.push(usize::MAX);
    positions.push(usize::MAX - 1);
    for &i in &positions {
        let want = if i < len { Some((obs.ids[i], obs.addrs[i])) } else { None };
        let g = buf.get(i).map(key);
        let nf = buf.nth_front(i).map(key);
        let nb_want = if i < len { Some((obs.ids[len - 1 - i], obs.addrs[len - 1 - i])) } else { None };
        let nb = buf.nth_back(i).map(key);
        compared += 3;
        if g != want {
            bad(ctx, "get", format!("get({}) = {:?}, expected {:?}", i, g, want));
        }
        if nf != want {
            bad(ctx, "nth_front", format!("nth_front({}) = {:?}, expected {:?}", i, nf, want));
        }
        if nb != nb_want {
            bad(ctx, "nth_back", format!("nth_back({}) = {:?}, expected {:?}", i, nb, nb_want));
        }
        // indexing: panics exactly outside
        let r = catch_unwind(AssertUnwindSafe(|| key(&buf[i])));
        let _ = take_last_panic();
        match (r, want) {
            (Ok(k), Some(w)) if k == w => {}
            (Err(_), None) => {}
            (r, w) => bad(ctx, "index", format!("buf[{}] -> {:?}, expected {:?}", i, r.ok(), w)),
        }
        compared += 1;
    }
    let f = buf.front().map(key);
    let b = buf.back().map(key);
    let wf = if len > 0 { Some((obs.ids[0], obs.addrs[0])) } else { None };
    let wb = if len > 0 { Some((obs.ids[len - 1], obs.addrs[len - 1])) } else { None };
    if f != wf {
        bad(ctx, "front", format!("front() = {:?}, expected {:?}", f, wf));
    }
    if b != wb {
        bad(ctx, "back", format!("back() = {:?}, expected {:?}", b, wb));
    }
    let (s1, s2) = buf.as_slices();
    // where the contents split is unspecified (never judged against the model) but it is a result
    // of an operation: it goes into the trace digest compared across builds (C16/C18)
    trace_num(0xEA, ((s1.len() as u64) << 32) ^ s2.len() as u64);
    let sl: Vec<(u64, usize)> = s1.iter().chain(s2.iter()).map(key).collect();
    let want_all: Vec<(u64, usize)> = obs.ids.iter().copied().zip(obs.addrs.iter().copied()).collect();
    if sl != want_all {
        bad(ctx, "as_slices", format!("as_slices concat = {:?}, expected {:?}", sl, want_all));
    }
    let rv: Vec<(u64, usize)> = buf.iter().rev().map(key).collect();
    let mut wr = want_all.clone();
    wr.reverse();
    if rv != wr {
        bad(ctx, "iter.rev", format!("iter().rev() = {:?}, expected {:?}", rv, wr));
    }
    // sub-ranges
    for a in 0..=len.min(6) {
        for b2 in a..=len.min(6) {
            let r: Vec<(u64, usize)> = buf.range(a..b2).map(key).collect();
            if r != want_all[a..b2] {
                bad(ctx, "range", format!("range({}..{}) = {:?}, expected {:?}", a, b2, r, &want_all[a..b2]));
            }
            compared += 1;
        }
    }
    if len > 6 {
        let r: Vec<(u64, usize)> = buf.range(1..len - 1).map(key).collect();
        if r != want_all[1..len - 1] {
            bad(ctx, "range", format!("range(1..{}) mismatch", len - 1));
        }
    }
    // to_vec: fresh clones in order (dropped right away)
    {
        let next = ledger_next_id();
        let v = cb_to_vec(buf);
        let ok = v.len() == len
            && v.iter().enumerate().all(|(i, t)| {
                let (id, val) = t.peek("to_vec");
                id >= next && ledger_root(id) == ledger_root(obs.ids[i]) && val == obs.vals[i]
            });
        if !ok {
            let got: Vec<(u64, u32)> = v.iter().map(|t| (t.id, t.val)).collect();
            bad(ctx, "to_vec", format!("to_vec() = {:?}, expected clones of {:?}", got, obs.ids));
        }
        drop(v);
    }
    // Debug
    let d = format!("{:?}", buf);
    let want_d = format!("{:?}", obs.vals);
    if d != want_d {
        bad(ctx, "debug", format!("Debug = {}, expected {}", d, want_d));
    }
    // distinct addresses inside the footprint, slot aligned
    let base = buf as *const Buf<N, P> as usize;
    let size = mem::size_of::<Buf<N, P>>();
    let esz = mem::size_of::<TokG<P>>();
    let mut sorted = obs.addrs.clone();
    sorted.sort_unstable();
    for w in sorted.windows(2) {
        if w[0] == w[1] {
            bad(ctx, "alias", format!("two positions share address {:#x}", w[0]));
        }
    }
    for &a in &obs.addrs {
        if a < base || a + esz > base + size {
            bad(ctx, "footprint", format!("element address {:#x} outside buffer {:#x}+{}", a, base, size));
        }
    }
    if let Some(off) = items_off::<N, P>() {
        for &a in &obs.addrs {
            if a >= base + off && (a - base - off) % esz != 0 {
                bad(ctx, "slot_align", format!("element address {:#x} not on a slot boundary", a));
            }
        }
    }
    ctx.count("views_compared", compared + 8);
}

/// The mutable twins must address the same elements (no writes here).
pub fn check_mut_views<const N: usize, P: Pad>(buf: &mut Buf<N, P>, obs: &Obs, ctx: &mut Ctx, opname: &str) {
    let len = obs.ids.len();
    let mut bad = |ctx: &mut Ctx, what: &str, d: String| {
        ctx.violation("C07", format!("after={}|ncap={}|view={}", opname, ncls(N), what), d);
    };
    let key = |t: &mut TokG<P>| (t.peek("mutview").0, t as *const TokG<P> as usize);
    let mut positions: Vec<usize> = (0..len + 2).collect();
    positions.push(usize::MAX);
    for &i in &positions {
        let want = if i < len { Some((obs.ids[i], obs.addrs[i])) } else { None };
        let nb_want = if i < len { Some((obs.ids[len - 1 - i], obs.addrs[len - 1 - i])) } else { None };
        let g = buf.get_mut(i).map(key);
        if g != want {
            bad(ctx, "get_mut", format!("get_mut({}) = {:?}, expected {:?}", i, g, want));
        }
        let g = buf.nth_front_mut(i).map(key);
        if g != want {
            bad(ctx, "nth_front_mut", format!("nth_front_mut({}) = {:?}, expected {:?}", i, g, want));
        }
        let g = buf.nth_back_mut(i).map(key);
        if g != nb_want {
            bad(ctx, "nth_back_mut", format!("nth_back_mut({}) = {:?}, expected {:?}", i, g, nb_want));
        }
        let r = catch_unwind(AssertUnwindSafe(|| key(&mut buf[i])));
        let _ = take_last_panic();
        match (r, want) {
            (Ok(k), Some(w)) if k == w => {}
            (Err(_), None) => {}
            (r, w) => bad(ctx, "index_mut", format!("buf[{}] (mut) -> {:?}, expected {:?}", i, r.ok(), w)),
        }
    }
    let wf = if len > 0 { Some((obs.ids[0], obs.addrs[0])) } else { None };
    let wb = if len > 0 { Some((obs.ids[len - 1], obs.addrs[len - 1])) } else { None };
    let f = buf.front_mut().map(key);
    if f != wf {
        bad(ctx, "front_mut", format!("front_mut() = {:?}, expected {:?}", f, wf));
    }
    let b = buf.back_mut().map(key);
    if b != wb {
        bad(ctx, "back_mut", format!("back_mut() = {:?}, expected {:?}", b, wb));
    }
    let want_all: Vec<(u64, usize)> = obs.ids.iter().copied().zip(obs.addrs.iter().copied()).collect();
    {
        // hold all &mut at once: under Miri, two live &mut to one slot is reported
        let mut refs: Vec<&mut TokG<P>> = buf.iter_mut().collect();
        let got: Vec<(u64, usize)> = refs.iter_mut().map(|t| key(t)).collect();
        if got != want_all {
            bad(ctx, "iter_mut", format!("iter_mut() = {:?}, expected {:?}", got, want_all));
        }
        for r in refs.iter_mut() {
            let v = r.val;
            r.set_val(v); // write through every reference while all are alive
        }
    }
    {
        let it = buf.iter_mut();
        if it.len() != len {
            bad(ctx, "iter_mut.len", format!("iter_mut().len()={} len={}", it.len(), len));
        }
        let got: Vec<(u64, usize)> = it.rev().map(key).collect();
        let mut wr = want_all.clone();
        wr.reverse();
        if got != wr {
            bad(ctx, "iter_mut.rev", format!("iter_mut().rev() = {:?}, expected {:?}", got, wr));
        }
    }
    {
        let (a, b) = buf.as_mut_slices();
        let got: Vec<(u64, usize)> = a.iter_mut().chain(b.iter_mut()).map(key).collect();
        if got != want_all {
            bad(ctx, "as_mut_slices", format!("as_mut_slices concat = {:?}, expected {:?}", got, want_all));
        }
    }
    for a in 0..=len.min(5) {
        for b2 in a..=len.min(5) {
            let r: Vec<(u64, usize)> = buf.range_mut(a..b2).map(key).collect();
            if r != want_all[a..b2] {
                bad(ctx, "range_mut", format!("range_mut({}..{}) = {:?}, expected {:?}", a, b2, r, &want_all[a..b2]));
            }
        }
    }
    ctx.count("mut_views_compared", (positions.len() * 4 + 6) as u64);
}

/// Match observed contents against the model's expectation; returns the resolved contents.
fn reconcile(
    after: &[Item],
    obs: &Obs,
    made: &[u64],
    first_new_id: u64,
) -> Result<Vec<(u64, u32)>, String> {
    if after.len() != obs.ids.len() {
        return Err(format!("length {} expected {}", obs.ids.len(), after.len()));
    }
    let mut out = Vec::with_capacity(after.len());
    let mut made_cursor = 0usize;
    for (i, it) in after.iter().enumerate() {
        let (id, val) = (obs.ids[i], obs.vals[i]);
        match *it {
            Item::Id(x, v) => {
                if id != x {
                    return Err(format!("position {} holds id {} expected id {}", i, id, x));
                }
                if val != v {
                    return Err(format!("position {} (id {}) has value {} expected {}", i, id, val, v));
                }
            }
            Item::CloneOf(root, v) => {
                let ok = id == root || (id >= first_new_id && ledger_root(id) == ledger_root(root));
                if !ok {
                    return Err(format!("position {} holds id {} expected a clone of {}", i, id, root));
                }
                if val != v {
                    return Err(format!("position {} clone has value {} expected {}", i, val, v));
                }
            }
            Item::Made => match made[made_cursor.min(made.len())..].iter().position(|&m| m == id) {
                Some(k) => made_cursor += k + 1,
                None => {
                    return Err(format!(
                        "position {} holds id {} which is not the next closure product (made {:?})",
                        i, id, made
                    ))
                }
            },
        }
        out.push((id, val));
    }
    // distinctness
    let mut s: Vec<u64> = out.iter().map(|x| x.0).collect();
    s.sort_unstable();
    if s.windows(2).any(|w| w[0] == w[1]) {
        return Err(format!("duplicate element in contents {:?}", obs.ids));
    }
    Ok(out)
}

fn ret_matches(x: &XRet, r: &Ret, first_new_id: u64) -> Result<(), String> {
    let ok = match (x, r) {
        (XRet::Any, _) => true,
        (XRet::Unit, Ret::Unit) => true,
        (XRet::Opt(a), Ret::Opt(b)) => a == b,
        (XRet::Res(a), Ret::Res(b)) => a == b,
        (XRet::Ref(a), Ret::Ref(b)) => a == b,
        (XRet::Ids(a), Ret::Ids(b)) => a == b,
        (XRet::Text(a), Ret::Text(b)) => a == b,
        (XRet::Bool(a), Ret::Bool(b)) => a == b,
        (XRet::Quad(a, b, c, d), Ret::Quad(e, f, g, h)) => (a, b, c, d) == (e, f, g, h),
        (XRet::Clones(roots), Ret::Ids(ids)) => {
            roots.len() == ids.len()
                && ids.iter().zip(roots.iter()).all(|(&id, &root)| {
                    id >= first_new_id && id != root && ledger_root(id) == ledger_root(root)
                })
                && {
                    let mut s = ids.clone();
                    s.sort_unstable();
                    s.windows(2).all(|w| w[0] != w[1])
                }
        }
        _ => false,
    };
    if ok {
        Ok(())
    } else {
        Err(format!("returned {:?}, expected {:?}", r, x))
    }
}

/// Validity predicate for a buffer whose exact contents are unspecified (after a caught panic or a
/// leaked drain): live, distinct, drawn from `allowed` (plus clones/closure products of this call).
fn validity(
    obs: &Obs,
    allowed: &[u64],
    excluded: &[u64],
    first_new_id: u64,
    made: &[u64],
) -> Result<(), String> {
    let mut s = obs.ids.clone();
    s.sort_unstable();
    if s.windows(2).any(|w| w[0] == w[1]) {
        return Err(format!("duplicate element in {:?}", obs.ids));
    }
    for &id in &obs.ids {
        if !ledger_is_live(id) {
            return Err(format!("dead element {} in buffer {:?}", id, obs.ids));
        }
        if excluded.contains(&id) {
            return Err(format!("element {} was already handed out but is still in the buffer", id));
        }
        let fresh_ok = id >= first_new_id && (ledger_parent(id) != 0 || made.contains(&id));
        if !allowed.contains(&id) && !fresh_ok {
            return Err(format!("foreign element {} in buffer {:?}", id, obs.ids));
        }
    }
    Ok(())
}

/// One monitored step. `model` is updated to the (verified or re-synchronised) contents.
pub fn step<const N: usize, P: Pad>(
    h: &mut Holder<N, P>,
    model: &mut Vec<(u64, u32)>,
    op: &Op,
    env: &mut Env<N, P>,
    ctx: &mut Ctx,
    mon: &MonCfg,
    fault: Option<(FpKind, u32)>,
    pre: Option<&Obs>,
) -> StepOut {
    ctx.count("ops_executed", 1);
    // pre-state addresses (relocation monitor, layout coverage)
    let pre_owned;
    let pre: &Obs = match pre {
        Some(p) => p,
        None => {
            pre_owned = observe(h.buf_ref());
            &pre_owned
        }
    };
    let pre_layout = measured_layout(h.buf_ref(), pre);
    let lay = layout_class(N, pre_layout, pre.ids.len());
    let live_before = ledger_live();
    let first_new_id = ledger_next_id();
    let epoch = ledger_epoch() + 1;
    ledger_set_epoch(epoch);
    env.prepare(op);
    let before = model.clone();
    let exp: Expect = model::expect(N, &before, op, &env.arg_ids);
    let arg_ids: Vec<u64> = env.arg_ids.iter().map(|x| x.0).collect();

    let ret = exec(h.buf(), op, env, fault);
    match &ret {
        Ret::Text(s) => trace_str(0xE1, s),
        Ret::Panic { injected, .. } => trace_num(0xE2, *injected as u64),
        Ret::Quad(a, b, c, d) => trace_num(0xE3, (*a as u64) ^ ((*b as u64) << 20) ^ ((*c as u64) << 21) ^ ((*d as u64) << 32)),
        Ret::Bool(b) => trace_num(0xE4, *b as u64),
        Ret::Res(r) => trace_num(0xE5, r.is_ok() as u64),
        Ret::Opt(o) => trace_num(0xE6, o.is_some() as u64),
        Ret::Ref(o) => trace_num(0xE7, o.is_some() as u64),
        Ret::Ids(v) => trace_num(0xE8, v.len() as u64),
        Ret::Unit => {}
    }
    for a in env.aux.iter() {
        trace_num(0xE9, a.0 as u64 ^ ((a.1 as u64) << 20));
    }
    let fkind = fault.map(|f| f.0).filter(|_| env.fp.fired);
    let mut out = StepOut {
        panicked: false,
        injected: false,
        fp_count: env.fp.count,
        ret: ret.clone(),
        relocations: 0,
        pre_layout,
        resynced: false,
        events: Vec::new(),
        event_ids: Vec::new(),
        post: Vec::new(),
    };

    if !h.canaries_ok() {
        ctx.violation("C03", sig(op, N, lay, "canary_overwritten"), format!("red zone damaged; case={}", ctx.cur_case));
    }

    let post = observe(h.buf_ref());
    for (k, i) in flush_events_ids(ctx, op.name(), N, lay, fkind) {
        out.events.push(k);
        out.event_ids.push(i);
    }

    match &ret {
        Ret::Panic { injected: true, .. } => {
            out.panicked = true;
            out.injected = true;
            let prop = if fkind == Some(FpKind::Drop) { "C05" } else { "C06" };
            // validity of what is left
            let mut allowed: Vec<u64> = before.iter().map(|x| x.0).collect();
            allowed.extend(arg_ids.iter());
            let handed: Vec<u64> = env.returned.iter().map(|t| t.id).collect();
            if let Err(e) = validity(&post, &allowed, &handed, first_new_id, &env.made) {
                ctx.violation(
                    prop,
                    sig(op, N, lay, &format!("fault={}|invalid_after_panic", fkind.map(|k| k.name()).unwrap_or("?"))),
                    format!("{}; case={}", e, ctx.cur_case),
                );
            }
            if mon.views {
                check_views(h.buf_ref(), &post, ctx, op.name());
            }
            *model = post.pairs();
            out.resynced = true;
            ctx.count("faults_fired", 1);
        }
        Ret::Panic { injected: false, msg, loc } => {
            out.panicked = true;
            if !exp.panics {
                ctx.violation(
                    "C11",
                    sig(op, N, lay, &format!("unexpected_panic@{}", short_loc(loc))),
                    format!("{:?} panicked: {} at {}; case={}", op, msg, loc, ctx.cur_case),
                );
                // a panic instead of the documented result also refutes the property that
                // specifies that result
                let also = match op {
                    Op::PushBack | Op::PushFront | Op::TryPushBack | Op::TryPushFront => "C02",
                    Op::Drain(_, _, End::Drop) => "C09",
                    Op::Drain(_, _, End::Forget) => "C10",
                    Op::CloneFrom(_) | Op::CloneBuf | Op::ToVec => "C12",
                    Op::HashSelf | Op::EqSelf | Op::CmpSelf | Op::DebugFmt(_) => "C13",
                    _ if !op.is_mutator() => "C07",
                    _ => "C01",
                };
                ctx.violation(
                    also,
                    sig(op, N, lay, &format!("panicked_instead_of_result@{}", short_loc(loc))),
                    format!("{:?} panicked: {} at {}; case={}", op, msg, loc, ctx.cur_case),
                );
                if matches!(also, "C02" | "C09" | "C10") {
                    ctx.violation("C01", sig(op, N, lay, &format!("panicked_instead_of_result@{}", short_loc(loc))), format!("{:?} panicked: {} at {}", op, msg, loc));
                }
                // contents are whatever is there now
                *model = post.pairs();
                out.resynced = true;
            } else {
                ctx.count("documented_panics", 1);
                // must leave the buffer unchanged
                if post.pairs() != before || post.addrs != pre.addrs {
                    ctx.violation(
                        "C11",
                        sig(op, N, lay, "changed_by_panicking_call"),
                        format!("{:?}: before {:?} after {:?}; case={}", op, before, post.pairs(), ctx.cur_case),
                    );
                    *model = post.pairs();
                    out.resynced = true;
                }
            }
        }
        _ => {
            if exp.panics {
                ctx.violation(
                    "C11",
                    sig(op, N, lay, "missing_documented_panic"),
                    format!("{:?} on len {} returned {:?} instead of panicking; case={}", op, before.len(), ret, ctx.cur_case),
                );
            }
            // return value
            if let Err(e) = ret_matches(&exp.ret, &ret, first_new_id) {
                if !exp.panics {
                    let prop = match op {
                        Op::PushBack | Op::PushFront | Op::TryPushBack | Op::TryPushFront => "C02",
                        Op::Drain(..) => "C09",
                        Op::HashSelf | Op::EqSelf | Op::CmpSelf => "C13",
                        Op::ToVec | Op::CloneBuf => "C12",
                        _ if !op.is_mutator() => "C07",
                        _ => "C01",
                    };
                    ctx.violation(
                        prop,
                        sig(op, N, lay, "wrong_return"),
                        format!("{:?}: {}; before={:?}; case={}", op, e, before, ctx.cur_case),
                    );
                    if matches!(prop, "C02" | "C09") {
                        ctx.violation("C01", sig(op, N, lay, "wrong_return"), format!("{:?}: {}", op, e));
                    }
                    if matches!(op, Op::ToVec) {
                        // to_vec is also one of the views of C07
                        ctx.violation("C07", sig(op, N, lay, "wrong_return"), format!("{:?}: {}; case={}", op, e, ctx.cur_case));
                    }
                    if matches!(op, Op::ToVec | Op::CloneBuf) {
                        ctx.violation("C12", sig(op, N, lay, "wrong_return"), format!("{:?}: {}; case={}", op, e, ctx.cur_case));
                    }
                    if matches!(op, Op::DebugFmt(_) | Op::HashSelf | Op::EqSelf | Op::CmpSelf) {
                        ctx.violation("C13", sig(op, N, lay, "wrong_return"), format!("{:?}: {}; case={}", op, e, ctx.cur_case));
                    }
                }
            }
            // contents
            let forget = matches!(op, Op::Drain(_, _, End::Forget));
            if forget {
                let allowed: Vec<u64> = before.iter().map(|x| x.0).collect();
                let handed: Vec<u64> = env.returned.iter().map(|t| t.id).collect();
                if let Err(e) = validity(&post, &allowed, &handed, u64::MAX, &[]) {
                    ctx.violation(
                        "C10",
                        sig(op, N, lay, "invalid_after_leak"),
                        format!("{:?}: {}; before={:?}; case={}", op, e, before, ctx.cur_case),
                    );
                }
                *model = post.pairs();
                out.resynced = true;
                ctx.count("drains_leaked", 1);
            } else if !exp.panics {
                match reconcile(&exp.after, &post, &env.made, first_new_id) {
                    Ok(m) => *model = m,
                    Err(e) => {
                        let prop = match op {
                            Op::PushBack | Op::PushFront | Op::TryPushBack | Op::TryPushFront => "C02",
                            Op::Drain(..) => "C09",
                            Op::CloneFrom(_) => "C12",
                            _ if !op.is_mutator() => "C07",
                            _ => "C01",
                        };
                        ctx.violation(
                            prop,
                            sig(op, N, lay, "wrong_contents"),
                            format!("{:?}: {}; before={:?} after={:?}; case={}", op, e, before, post.pairs(), ctx.cur_case),
                        );
                        if matches!(prop, "C02" | "C09" | "C12") {
                            // C01 speaks of every operation of the API that changes the contents
                            ctx.violation("C01", sig(op, N, lay, "wrong_contents"), format!("{:?}: {}", op, e));
                        }
                        *model = post.pairs();
                        out.resynced = true;
                    }
                }
            }
            // per-op extras
            judge_extras::<N, P>(op, env, &before, pre, &post, ctx, lay);
            if matches!(op, Op::MakeContiguous(_) | Op::Write(MutView::MakeContiguous, _, _)) {
                let (s1, s2) = h.buf_ref().as_slices();
                if !s2.is_empty() || s1.len() != post.ids.len() {
                    ctx.violation(
                        "C07",
                        sig(op, N, lay, "two_slices_after_make_contiguous"),
                        format!("{:?}: as_slices() reports {} + {} elements afterwards; case={}", op, s1.len(), s2.len(), ctx.cur_case),
                    );
                }
            }
            // allocations
            if mon.allocs && !P::HEAP {
                let c = env.counts;
                let allowed = matches!(op, Op::ToVec);
                if !allowed && (c.allocs | c.deallocs | c.reallocs) != 0 {
                    ctx.violation(
                        "C17",
                        sig(op, N, lay, "allocates"),
                        format!("{:?}: {:?}; case={}", op, c, ctx.cur_case),
                    );
                }
                ctx.count("alloc_scopes_checked", 1);
            }
            // relocations
            if mon.reloc {
                let pm: HashMap<u64, usize> = pre.ids.iter().copied().zip(pre.addrs.iter().copied()).collect();
                let mut rel = 0usize;
                for (id, a) in post.ids.iter().zip(post.addrs.iter()) {
                    if let Some(pa) = pm.get(id) {
                        if pa != a {
                            rel += 1;
                        }
                    }
                }
                out.relocations = rel;
                let len = before.len();
                let bound: Option<usize> = match op {
                    Op::PushBack | Op::PushFront | Op::TryPushBack | Op::TryPushFront | Op::PopBack | Op::PopFront
                    | Op::Swap(..) | Op::SwapRemoveBack(_) | Op::SwapRemoveFront(_) | Op::TruncateBack(_)
                    | Op::TruncateFront(_) | Op::Clear | Op::Quad | Op::Get(_) | Op::NthFront(_) | Op::NthBack(_)
                    | Op::Front | Op::Back | Op::Index(_) | Op::IterCollect(_) | Op::IterMutCollect(_)
                    | Op::RangeCollect(_) | Op::RangeMutCollect(_) | Op::AsSlices | Op::AsMutSlices => Some(2),
                    Op::Write(v, _, _) if *v != MutView::MakeContiguous => Some(2),
                    Op::Remove(i) => Some(len.saturating_sub(*i).max(0)),
                    Op::Drain(r, _, End::Drop) => model::resolve_range(*r, len).map(|(_, b)| len - b),
                    Op::MakeContiguous(false) | Op::Write(MutView::MakeContiguous, _, WMode::Peek) => {
                        let esz = mem::size_of::<TokG<P>>();
                        let contiguous = pre.addrs.windows(2).all(|w| w[1] == w[0] + esz);
                        if contiguous {
                            Some(0)
                        } else {
                            None
                        }
                    }
                    _ => None,
                };
                if let Some(b) = bound {
                    ctx.count("relocation_bounds_checked", 1);
                    if rel > b {
                        ctx.violation(
                            "C20",
                            sig(op, N, lay, "relocations_over_bound"),
                            format!("{:?}: {} surviving elements relocated, bound {}; len={} case={}", op, rel, b, len, ctx.cur_case),
                        );
                    }
                }
            }
            if mon.views {
                check_views(h.buf_ref(), &post, ctx, op.name());
            }
            if mon.mut_views {
                check_mut_views(h.buf(), &post, ctx, op.name());
            }
        }
    }

    // conservation: hand back everything the harness holds, then the live set must be the model
    let returned_ids: Vec<u64> = env.returned.iter().map(|t| t.id).collect();
    for t in env.returned.iter() {
        t.validate("returned");
    }
    env.returned.clear();
    env.args.clear();
    if let Some((mut sh, sm)) = env.src.take() {
        let so = observe(sh.buf_ref());
        if so.pairs() != sm {
            ctx.violation(
                "C12",
                sig(op, N, lay, "source_changed"),
                format!("{:?}: source before {:?} after {:?}; case={}", op, sm, so.pairs(), ctx.cur_case),
            );
        }
        drop_holder(&mut sh);
    }
    for (k, i) in flush_events_ids(ctx, op.name(), N, lay, fkind) {
        out.events.push(k);
        out.event_ids.push(i);
    }
    if matches!(op, Op::Drain(_, _, End::Drop)) && fkind.is_none() && !out.events.is_empty() {
        ctx.violation(
            "C09",
            sig(op, N, lay, &format!("ledger:{}", out.events[0])),
            format!("{:?}: ledger events {:?}; case={}", op, out.events, ctx.cur_case),
        );
    }
    out.post = model.clone();
    let live = ledger_live();
    let want = model.len() as u64;
    let base_live = live_before.saturating_sub(before.len() as u64); // elements alive outside this buffer
    if P::DROP && live != want + base_live {
        if live > want + base_live {
            // leaks are allowed only after a destructor panic or a leaked drain
            let allowed_leak = fkind == Some(FpKind::Drop) || matches!(op, Op::Drain(_, _, End::Forget));
            if !allowed_leak {
                let prop = if fkind.is_some() { "C06" } else { "C03" };
                ctx.violation(
                    prop,
                    sig(op, N, lay, &format!("fault={}|leak", fkind.map(|k| k.name()).unwrap_or("none"))),
                    format!(
                        "{:?}: {} element(s) neither in the buffer, returned nor destroyed; live ids {:?} contents {:?}; case={}",
                        op,
                        live - want - base_live,
                        ledger_live_ids(),
                        model,
                        ctx.cur_case
                    ),
                );
            } else {
                ctx.count("allowed_leaks", live - want - base_live);
            }
            if matches!(op, Op::Drain(_, _, End::Drop)) && fkind.is_none() {
                ctx.violation(
                    "C09",
                    sig(op, N, lay, "drained_element_not_destroyed"),
                    format!("{:?}: {} drained element(s) neither handed out nor destroyed; case={}", op, live - want - base_live, ctx.cur_case),
                );
            }
            // forget the leaked ones so later steps stay exact
            forget_leaked(model);
        } else {
            let prop = if fkind == Some(FpKind::Drop) { "C05" } else if fkind.is_some() { "C06" } else { "C03" };
            ctx.violation(
                prop,
                sig(op, N, lay, "premature_drop"),
                format!("{:?}: live count {} below contents {}; case={}", op, live, want, ctx.cur_case),
            );
        }
    }
    if mon.full_conservation {
        for (id, _) in model.iter() {
            if !ledger_is_live(*id) {
                ctx.violation(
                    "C03",
                    sig(op, N, lay, "dead_element_reachable"),
                    format!("{:?}: element {} in the buffer has been destroyed; case={}", op, id, ctx.cur_case),
                );
            }
        }
        ctx.count("conservation_checks", 1);
    }
    let _ = returned_ids;
    if mon.trace {
        // canonical trace handled by the caller through `out`
    }
    out
}

/// after an allowed leak: move the leaked ids to the `Leaked` state so the live count is exact
/// again (a later, first, destructor run on them is legal and is not reported)
fn forget_leaked(model: &[(u64, u32)]) {
    let keep: std::collections::HashSet<u64> = model.iter().map(|x| x.0).collect();
    with_ledger(|l| {
        let mut live = 0;
        let base = l.base;
        for (i, r) in l.recs.iter_mut().enumerate().skip(1) {
            if r.st == St::Live {
                if keep.contains(&(base + i as u64)) || r.epoch == PINNED {
                    live += 1;
                } else {
                    r.st = St::Leaked;
                }
            }
        }
        l.live = live;
    });
}

fn short_loc(loc: &str) -> String {
    // keep "src/file.rs:line" without the absolute prefix
    match loc.rfind("src/") {
        Some(i) => loc[i..].to_string(),
        None => loc.to_string(),
    }
}

fn judge_extras<const N: usize, P: Pad>(
    op: &Op,
    env: &Env<N, P>,
    before: &[(u64, u32)],
    pre: &Obs,
    post: &Obs,
    ctx: &mut Ctx,
    lay: &'static str,
) {
    match op {
        Op::Drain(r, script, _) => {
            if let Some((a, b)) = model::resolve_range(*r, before.len()) {
                // len at every step
                let mut w = Win { lo: a, hi: b };
                let mut want = vec![w.len()];
                for s in script {
                    w.step(*s);
                    want.push(w.len());
                }
                let got: Vec<usize> = env.aux.iter().map(|x| x.0).collect();
                let hints_ok = env.aux.iter().all(|x| x.1 == x.0 && x.2 == Some(x.0));
                if got != want || !hints_ok {
                    ctx.violation(
                        "C09",
                        sig(op, N, lay, "wrong_len"),
                        format!("{:?}: len per step {:?} expected {:?} (aux {:?}); case={}", op, got, want, env.aux, ctx.cur_case),
                    );
                }
            }
        }
        Op::MakeContiguous(_) | Op::Write(MutView::MakeContiguous, _, _) => {
            let (_, s2) = {
                // after make_contiguous the second slice must be empty: observe via addresses
                let esz = mem::size_of::<TokG<P>>();
                let contiguous = post.addrs.windows(2).all(|w| w[1] == w[0] + esz);
                (0, contiguous)
            };
            if !s2 {
                ctx.violation(
                    "C07",
                    sig(op, N, lay, "not_contiguous_after_make_contiguous"),
                    format!("{:?}: addresses after {:?}; case={}", op, post.addrs, ctx.cur_case),
                );
            }
        }
        _ => {}
    }
    // any op that returned references: they must be the addresses seen by iter()
    if !env.ref_addrs.is_empty() {
        let ok = env.ref_addrs.iter().all(|a| pre.addrs.contains(a) || post.addrs.contains(a));
        if !ok {
            ctx.violation(
                "C07",
                sig(op, N, lay, "reference_outside_contents"),
                format!("{:?}: returned reference addresses {:?} not among element addresses {:?}; case={}", op, env.ref_addrs, post.addrs, ctx.cur_case),
            );
        }
    }
    if let Some(l2) = env.second_slice_len {
        let _ = l2; // where as_slices splits is unspecified: recorded only
    }
}

/// Control execution for attribution: run `op` un-attributed on a *fresh, healthy* buffer with the
/// same capacity, front slot, length and values as `h`. If the operation deviates there too, the
/// deviation is recorded under its own property and enters the baseline, so that the same deviation
/// on the post-fault buffer is not blamed on the fault.
/// Returns true if the control deviated as well: from then on the buffer under test may be corrupted
/// by a defect that has nothing to do with the fault, so the caller stops attributing.
pub fn control_step<const N: usize, P: Pad>(h: &Holder<N, P>, model: &[(u64, u32)], op: &Op, ctx: &mut Ctx, mon: &MonCfg) -> bool {
    if ctx.attribute.is_none() {
        return false;
    }
    control_exec(h, model, op, ctx, mon)
}

/// The control execution itself (also used before a fault is injected into a random history: an
/// operation that already deviates without a fault gets none).
pub fn control_exec<const N: usize, P: Pad>(h: &Holder<N, P>, model: &[(u64, u32)], op: &Op, ctx: &mut Ctx, mon: &MonCfg) -> bool {
    let seen_before = ctx.total_reports;
    let obs = observe(h.buf_ref());
    let (start, len) = measured_layout(h.buf_ref(), &obs).unwrap_or((0, model.len()));
    let saved = ctx.attribute.take();
    let saved_case = ctx.cur_case.clone();
    let mut vc = 7u32;
    let (mut hc, _m) = build::<N, P>(0, start, len.min(N), None, &mut vc);
    for (t, (_, v)) in hc.buf().iter_mut().zip(model.iter()) {
        t.set_val(*v);
    }
    let oc = observe(hc.buf_ref());
    if oc.ids.len() == model.len() {
        let mut mc = oc.pairs();
        let mut envc = Env::<N, P>::new(vc);
        step(&mut hc, &mut mc, op, &mut envc, ctx, mon, None, Some(&oc));
    }
    let _ = drop_holder(&mut hc);
    let _ = ledger_take_events();
    ctx.cur_case = saved_case;
    ctx.count("control_steps", 1);
    if ctx.total_reports != seen_before {
        // fault-independent defect: do not blame the fault for anything that follows in this case
        ctx.count("attribution_dropped", 1);
        true
    } else {
        ctx.attribute = saved;
        false
    }
}

/// Drop the buffer inside catch_unwind (a destructor failpoint may be armed by the caller).
pub fn drop_holder<const N: usize, P: Pad>(h: &mut Holder<N, P>) -> bool {
    // replace with an empty one and drop the old
    let old = mem::replace(h, Holder::new_inline());
    let r = catch_unwind(AssertUnwindSafe(move || drop(old)));
    let _ = take_last_panic();
    r.is_err()
}

/// End of a case: drop the buffer, then nothing created during the case may be alive.
pub fn teardown<const N: usize, P: Pad>(
    mut h: Holder<N, P>,
    ctx: &mut Ctx,
    opname: &str,
    fault: Option<FpKind>,
    allow_leak: bool,
) {
    let panicked = drop_holder(&mut h);
    if panicked && fault.is_none() {
        ctx.violation(
            "C11",
            format!("op=drop_buffer|ncap={}|unexpected_panic", ncls(N)),
            format!("dropping the buffer panicked; case={}", ctx.cur_case),
        );
    }
    flush_events(ctx, opname, N, "teardown", fault);
    let live = ledger_live();
    if P::DROP && live != 0 && !allow_leak {
        let prop = if fault.is_some() && fault != Some(FpKind::Drop) { "C06" } else { "C03" };
        ctx.violation(
            prop,
            format!("op={}|ncap={}|lay=teardown|fault={}|leak_at_teardown", opname, ncls(N), fault.map(|k| k.name()).unwrap_or("none")),
            format!("{} element(s) still alive after the buffer was dropped: {:?}; case={}", live, ledger_live_ids(), ctx.cur_case),
        );
    }
    ctx.count("teardowns", 1);
}
