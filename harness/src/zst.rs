//! Zero-sized elements and extreme capacities (C19): count-level model (ZSTs have no identity).

use crate::ops::{script_str, scripts_upto, Step};
use crate::tok::take_last_panic;
use crate::util::{hash64, Ctx, Rng};
use circular_buffer::CircularBuffer;
use std::cell::Cell;
use std::panic::{catch_unwind, AssertUnwindSafe};

thread_local! {
    static CREATED: Cell<u64> = const { Cell::new(0) };
    static DROPPED: Cell<u64> = const { Cell::new(0) };
    /// the j-th Z::clone from now panics (0 = off)
    static CLONE_PANIC_AT: Cell<u64> = const { Cell::new(0) };
}

struct ZInjected;

#[derive(Debug, PartialEq, Eq, PartialOrd, Ord, Hash)]
pub struct Z;
impl Z {
    fn new() -> Z {
        CREATED.with(|c| c.set(c.get() + 1));
        Z
    }
}
impl Clone for Z {
    fn clone(&self) -> Z {
        let fire = CLONE_PANIC_AT.with(|c| {
            let v = c.get();
            if v > 0 {
                c.set(v - 1);
            }
            v == 1
        });
        if fire {
            std::panic::resume_unwind(Box::new(ZInjected));
        }
        Z::new()
    }
}
impl Drop for Z {
    fn drop(&mut self) {
        DROPPED.with(|c| c.set(c.get() + 1));
    }
}
fn live() -> i128 {
    CREATED.with(|c| c.get()) as i128 - DROPPED.with(|c| c.get()) as i128
}

#[derive(Clone, Debug, PartialEq, Eq, Hash)]
pub enum ZOp {
    PushBack,
    PushFront,
    TryPushBack,
    TryPushFront,
    PopBack,
    PopFront,
    Get(usize),
    NthBack(usize),
    Index(usize),
    FrontBack,
    Swap(usize, usize),
    Remove(usize),
    SwapRemoveBack(usize),
    SwapRemoveFront(usize),
    TruncateBack(usize),
    TruncateFront(usize),
    Clear,
    Extend(usize),
    ExtendFromSlice(usize),
    Drain(usize, usize, Vec<Step>, bool),
    Iter(usize, usize, Vec<Step>, bool),
    MakeContiguous,
    AsSlices,
    EqSlice,
    CloneBuf,
    CloneFrom(usize),
    ToVec,
    HashDebug,
    Fill,
    FillWith,
    FillSpare,
    FillSpareWith,
}

impl ZOp {
    fn name(&self) -> String {
        let s = format!("{:?}", self);
        s.split('(').next().unwrap().to_string()
    }
}

fn viol(ctx: &mut Ctx, n: usize, op: &ZOp, what: &str, detail: String) {
    let c = ctx.cur_case.clone();
    let ncl = if n == usize::MAX {
        "max"
    } else if n > (1usize << 63) {
        ">2^63"
    } else if n >= (1usize << 32) {
        ">=2^32"
    } else if n == 0 {
        "0"
    } else {
        "small"
    };
    ctx.violation("C19", format!("zst|op={}|ncap={}|{}", op.name(), ncl, what), format!("{:?}: {}; case={}", op, detail, c));
    // the same observation also refutes the property that specifies this operation for all N
    let also: &[&'static str] = match op {
        ZOp::Get(_) | ZOp::NthBack(_) | ZOp::Index(_) | ZOp::FrontBack | ZOp::AsSlices | ZOp::MakeContiguous | ZOp::HashDebug | ZOp::EqSlice => &["C07"],
        ZOp::Iter(..) => &["C08", "C07"],
        ZOp::Drain(_, _, _, false) => &["C09"],
        ZOp::Drain(_, _, _, true) => &["C10"],
        ZOp::CloneBuf | ZOp::CloneFrom(_) | ZOp::ToVec => &["C12"],
        ZOp::PushBack | ZOp::PushFront | ZOp::TryPushBack | ZOp::TryPushFront => &["C02", "C01"],
        _ => &["C01"],
    };
    if what != "missing_documented_panic" {
        for p in also {
            ctx.violation(p, format!("zst|op={}|ncap={}|{}", op.name(), ncl, what), format!("{:?}: {}; case={}", op, detail, c));
        }
    }
    if what == "unexpected_panic" || what == "missing_documented_panic" || what == "changed_by_panicking_call" {
        ctx.violation("C11", format!("zst|op={}|ncap={}|{}", op.name(), ncl, what), format!("{:?}: {}; case={}", op, detail, c));
    }
    if what == "count_conservation" || what == "premature_drop" || what == "teardown_count" {
        ctx.violation("C03", format!("zst|op={}|ncap={}|{}", op.name(), ncl, what), format!("{:?}: {}; case={}", op, detail, c));
    }
}

/// Executes one op; `len` is the model (number of elements). Returns false if the buffer state is
/// no longer trustworthy (unexpected panic).
fn zstep<const N: usize>(b: &mut CircularBuffer<N, Z>, len: &mut usize, op: &ZOp, ctx: &mut Ctx) -> bool {
    let l0 = *len;
    let live0 = live();
    let free = N - l0;
    // (expected new length, documented panic?)
    let r = catch_unwind(AssertUnwindSafe(|| -> Result<usize, String> {
        let chk = |c: bool, m: String| if c { Ok(()) } else { Err(m) };
        match op {
            ZOp::PushBack | ZOp::PushFront => {
                let r = if *op == ZOp::PushBack { b.push_back(Z::new()) } else { b.push_front(Z::new()) };
                let want_some = N == 0 || l0 == N;
                chk(r.is_some() == want_some, format!("returned {:?}, expected Some: {}", r, want_some))?;
                Ok(if N == 0 { 0 } else { (l0 + 1).min(N) })
            }
            ZOp::TryPushBack | ZOp::TryPushFront => {
                let r = if *op == ZOp::TryPushBack { b.try_push_back(Z::new()) } else { b.try_push_front(Z::new()) };
                chk(r.is_err() == (l0 == N), format!("returned {:?} with len {} capacity {}", r, l0, N))?;
                Ok(if l0 == N { l0 } else { l0 + 1 })
            }
            ZOp::PopBack | ZOp::PopFront => {
                let r = if *op == ZOp::PopBack { b.pop_back() } else { b.pop_front() };
                chk(r.is_some() == (l0 > 0), format!("returned {:?} with len {}", r, l0))?;
                Ok(l0.saturating_sub(1))
            }
            ZOp::Get(i) => {
                chk(b.get(*i).is_some() == (*i < l0), format!("get({}) with len {}", i, l0))?;
                chk(b.nth_front(*i).is_some() == (*i < l0), format!("nth_front({}) with len {}", i, l0))?;
                chk(b.get_mut(*i).is_some() == (*i < l0), format!("get_mut({}) with len {}", i, l0))?;
                Ok(l0)
            }
            ZOp::NthBack(i) => {
                chk(b.nth_back(*i).is_some() == (*i < l0), format!("nth_back({}) with len {}", i, l0))?;
                chk(b.nth_back_mut(*i).is_some() == (*i < l0), format!("nth_back_mut({}) with len {}", i, l0))?;
                Ok(l0)
            }
            ZOp::Index(i) => {
                let _ = &b[*i];
                let _ = &mut b[*i];
                chk(*i < l0, format!("index {} did not panic with len {}", i, l0))?;
                Ok(l0)
            }
            ZOp::FrontBack => {
                chk(b.front().is_some() == (l0 > 0) && b.back().is_some() == (l0 > 0), format!("front/back with len {}", l0))?;
                chk(b.front_mut().is_some() == (l0 > 0) && b.back_mut().is_some() == (l0 > 0), format!("front_mut/back_mut with len {}", l0))?;
                chk(b.len() == l0 && b.is_empty() == (l0 == 0) && b.is_full() == (l0 == N) && b.capacity() == N, format!("len {} is_empty {} is_full {} capacity {}", b.len(), b.is_empty(), b.is_full(), b.capacity()))?;
                Ok(l0)
            }
            ZOp::Swap(i, j) => {
                b.swap(*i, *j);
                chk(*i < l0 && *j < l0, format!("swap({}, {}) did not panic with len {}", i, j, l0))?;
                Ok(l0)
            }
            ZOp::Remove(i) | ZOp::SwapRemoveBack(i) | ZOp::SwapRemoveFront(i) => {
                let r = match op {
                    ZOp::Remove(_) => b.remove(*i),
                    ZOp::SwapRemoveBack(_) => b.swap_remove_back(*i),
                    _ => b.swap_remove_front(*i),
                };
                chk(r.is_some() == (*i < l0), format!("returned {:?} for index {} with len {}", r, i, l0))?;
                Ok(if *i < l0 { l0 - 1 } else { l0 })
            }
            ZOp::TruncateBack(l) => {
                b.truncate_back(*l);
                Ok(l0.min(*l))
            }
            ZOp::TruncateFront(l) => {
                b.truncate_front(*l);
                Ok(l0.min(*l))
            }
            ZOp::Clear => {
                b.clear();
                Ok(0)
            }
            ZOp::Extend(k) => {
                b.extend((0..*k).map(|_| Z::new()));
                Ok(if N == 0 { 0 } else if *k >= free { N } else { l0 + *k })
            }
            ZOp::ExtendFromSlice(k) => {
                let v: Vec<Z> = (0..*k).map(|_| Z::new()).collect();
                b.extend_from_slice(&v);
                Ok(if N == 0 { 0 } else if *k >= free { N } else { l0 + *k })
            }
            ZOp::Drain(a, e, script, forget) => {
                let mut d = b.drain(*a..*e);
                chk(*a <= *e && *e <= l0, format!("drain({}..{}) did not panic with len {}", a, e, l0))?;
                let mut w = crate::ops::Win { lo: *a, hi: *e };
                for s in script {
                    chk(d.len() == w.len(), format!("drain len {} expected {}", d.len(), w.len()))?;
                    let x = crate::ops::apply_step(&mut d, *s);
                    let want = w.step(*s);
                    chk(x.is_some() == want.is_some(), format!("drain step {:?} yielded {:?}, expected Some: {}", s, x, want.is_some()))?;
                }
                let rem = w.len();
                chk(d.len() == rem && d.size_hint() == (rem, Some(rem)), format!("drain len {} expected {}", d.len(), rem))?;
                if *forget {
                    std::mem::forget(d);
                    Ok(usize::MAX) // unspecified: read back
                } else {
                    drop(d);
                    Ok(l0 - (e - a))
                }
            }
            ZOp::Iter(a, e, script, mutable) => {
                let (mut rem, valid) = (e.wrapping_sub(*a), *a <= *e && *e <= l0);
                macro_rules! drive {
                    ($it:expr) => {{
                        let mut it = $it;
                        chk(valid, format!("range({}..{}) did not panic with len {}", a, e, l0))?;
                        for s in script {
                            chk(it.len() == rem, format!("iterator len {} expected {}", it.len(), rem))?;
                            let x = crate::ops::apply_step(&mut it, *s);
                            let mut w = crate::ops::Win { lo: 0, hi: rem };
                            let want = w.step(*s);
                            chk(x.is_some() == want.is_some(), format!("iterator yielded {} with {} remaining", x.is_some(), rem))?;
                            rem = w.len();
                        }
                        chk(it.len() == rem && it.size_hint() == (rem, Some(rem)), format!("iterator len {} expected {}", it.len(), rem))?;
                        chk(it.count() == rem, "iterator count".to_string())?;
                    }};
                }
                if *mutable {
                    drive!(b.range_mut(*a..*e));
                } else {
                    drive!(b.range(*a..*e));
                }
                chk(b.iter().len() == l0 && b.iter_mut().len() == l0, format!("iter().len() {} expected {}", b.iter().len(), l0))?;
                Ok(l0)
            }
            ZOp::MakeContiguous => {
                let s = b.make_contiguous();
                chk(s.len() == l0, format!("make_contiguous returned {} elements, len {}", s.len(), l0))?;
                let (x, y) = b.as_slices();
                chk(x.len() == l0 && y.is_empty(), format!("as_slices after make_contiguous: {} + {}", x.len(), y.len()))?;
                Ok(l0)
            }
            ZOp::AsSlices => {
                let (x, y) = b.as_slices();
                chk(x.len().checked_add(y.len()) == Some(l0), format!("as_slices lengths {} + {} expected {}", x.len(), y.len(), l0))?;
                let (x, y) = b.as_mut_slices();
                chk(x.len().checked_add(y.len()) == Some(l0), format!("as_mut_slices lengths {} + {} expected {}", x.len(), y.len(), l0))?;
                Ok(l0)
            }
            ZOp::EqSlice => {
                let v: Vec<Z> = (0..l0).map(|_| Z::new()).collect();
                chk(*b == v[..], format!("buffer of {} != slice of {}", l0, v.len()))?;
                let w: Vec<Z> = (0..l0 + 1).map(|_| Z::new()).collect();
                chk(!(*b == w[..]), format!("buffer of {} == slice of {}", l0, w.len()))?;
                Ok(l0)
            }
            ZOp::CloneBuf => {
                let c = b.clone();
                chk(c.len() == l0 && c == *b && c.cmp(b) == std::cmp::Ordering::Equal, format!("clone has len {} expected {}", c.len(), l0))?;
                let n = c.into_iter().count();
                chk(n == l0, format!("into_iter of the clone yielded {} expected {}", n, l0))?;
                Ok(l0)
            }
            ZOp::CloneFrom(k) => {
                let mut src = CircularBuffer::<N, Z>::new();
                if N > 0 {
                    src.push_front(Z::new());
                    src.pop_back();
                }
                for _ in 0..*k {
                    src.push_back(Z::new());
                }
                let sl = src.len();
                b.clone_from(&src);
                chk(src.len() == sl, "source changed".to_string())?;
                Ok(sl)
            }
            ZOp::ToVec => {
                #[cfg(feature = "has-alloc")]
                let v = b.to_vec();
                #[cfg(not(feature = "has-alloc"))]
                let v: Vec<Z> = b.iter().cloned().collect();
                chk(v.len() == l0, format!("to_vec has {} elements expected {}", v.len(), l0))?;
                Ok(l0)
            }
            ZOp::HashDebug => {
                use std::hash::{Hash, Hasher};
                let mut h = std::collections::hash_map::DefaultHasher::new();
                b.hash(&mut h);
                let _ = h.finish();
                let d = format!("{:?}", b);
                let want = format!("{:?}", (0..l0).map(|_| "Z").collect::<Vec<_>>()).replace('"', "");
                chk(d == want, format!("Debug {} expected {}", d, want))?;
                Ok(l0)
            }
            ZOp::Fill => {
                b.fill(Z::new());
                Ok(N)
            }
            ZOp::FillWith => {
                b.fill_with(Z::new);
                Ok(N)
            }
            ZOp::FillSpare => {
                b.fill_spare(Z::new());
                Ok(N)
            }
            ZOp::FillSpareWith => {
                b.fill_spare_with(Z::new);
                Ok(N)
            }
        }
    }));
    let documented_panic = match op {
        ZOp::Index(i) => *i >= l0,
        ZOp::Swap(i, j) => *i >= l0 || *j >= l0,
        ZOp::Drain(a, e, _, _) | ZOp::Iter(a, e, _, _) => !(*a <= *e && *e <= l0),
        _ => false,
    };
    ctx.count("zst_ops", 1);
    match r {
        Err(_) => {
            let p = take_last_panic();
            if documented_panic {
                ctx.count("documented_panics", 1);
                // must be unchanged
                if b.len() != l0 {
                    viol(ctx, N, op, "changed_by_panicking_call", format!("len {} -> {}", l0, b.len()));
                    *len = b.len();
                }
                true
            } else {
                viol(ctx, N, op, "unexpected_panic", format!("panicked: {:?} (len {})", p, l0));
                *len = b.len();
                false
            }
        }
        Ok(Err(m)) => {
            viol(ctx, N, op, if documented_panic { "missing_documented_panic" } else { "wrong_result" }, m);
            *len = b.len();
            true
        }
        Ok(Ok(newlen)) => {
            if documented_panic {
                viol(ctx, N, op, "missing_documented_panic", format!("len {}", l0));
            }
            let nl = if newlen == usize::MAX && matches!(op, ZOp::Drain(_, _, _, true)) { b.len() } else { newlen };
            if b.len() != nl || b.is_empty() != (nl == 0) || b.is_full() != (nl == N) {
                viol(ctx, N, op, "wrong_len", format!("len {} -> {} (is_empty {} is_full {}), expected {}", l0, b.len(), b.is_empty(), b.is_full(), nl));
            }
            if b.iter().len() != b.len() {
                viol(ctx, N, op, "iter_len", format!("iter().len() {} but len() {}", b.iter().len(), b.len()));
            }
            *len = b.len();
            // conservation on counts: everything outside the buffer has been dropped by now
            let forget = matches!(op, ZOp::Drain(_, _, _, true));
            let d = live() - live0;
            let want = *len as i128 - l0 as i128;
            if forget {
                if d < want {
                    viol(ctx, N, op, "premature_drop", format!("live delta {} below length delta {}", d, want));
                }
            } else if d != want {
                viol(ctx, N, op, "count_conservation", format!("created-dropped changed by {} but length changed by {} ({} -> {})", d, want, l0, *len));
            }
            true
        }
    }
}

fn build_z<const N: usize>(pf: usize, pb: usize, popf: usize, walk: usize) -> (Box<CircularBuffer<N, Z>>, usize) {
    let mut b: Box<CircularBuffer<N, Z>> = Box::new(CircularBuffer::new());
    let mut len = 0usize;
    if N == 0 {
        return (b, 0);
    }
    // front positions near 0 by walking, near N by push_front
    for _ in 0..walk {
        b.push_back(Z::new());
        b.pop_front();
    }
    for _ in 0..pf {
        if b.push_front(Z::new()).is_none() {
            len += 1;
        }
    }
    for _ in 0..pb {
        if b.push_back(Z::new()).is_none() {
            len += 1;
        }
    }
    for _ in 0..popf {
        if b.pop_front().is_some() {
            len -= 1;
        }
    }
    (b, len)
}

fn zops(len: usize, n: usize, fills: bool) -> Vec<ZOp> {
    let mut idx: Vec<usize> = vec![0, 1, len.wrapping_sub(1), len, len.wrapping_add(1), n.wrapping_sub(1), n, usize::MAX - 1, usize::MAX, (1usize << 63), (1usize << 63) - 1];
    idx.sort_unstable();
    idx.dedup();
    let mut v = vec![
        ZOp::PushBack,
        ZOp::PushFront,
        ZOp::TryPushBack,
        ZOp::TryPushFront,
        ZOp::PopBack,
        ZOp::PopFront,
        ZOp::FrontBack,
        ZOp::Clear,
        ZOp::MakeContiguous,
        ZOp::AsSlices,
        ZOp::EqSlice,
        ZOp::CloneBuf,
        ZOp::ToVec,
        ZOp::HashDebug,
    ];
    for &i in &idx {
        v.push(ZOp::Get(i));
        v.push(ZOp::NthBack(i));
        v.push(ZOp::Index(i));
        v.push(ZOp::Remove(i));
        v.push(ZOp::SwapRemoveBack(i));
        v.push(ZOp::SwapRemoveFront(i));
        v.push(ZOp::TruncateBack(i));
        v.push(ZOp::TruncateFront(i));
        v.push(ZOp::Swap(i, 0));
        v.push(ZOp::Swap(len.wrapping_sub(1), i));
    }
    for k in 0..=8 {
        v.push(ZOp::Extend(k));
        v.push(ZOp::ExtendFromSlice(k));
        v.push(ZOp::CloneFrom(k));
    }
    let mut scripts = scripts_upto(3);
    scripts.push(vec![Step::N(1)]);
    scripts.push(vec![Step::NB(2), Step::F]);
    for a in 0..=len {
        for e in a..=len {
            for s in scripts.iter().filter(|s| s.len() <= e - a + 1) {
                v.push(ZOp::Drain(a, e, s.clone(), false));
                if s.len() <= 1 {
                    v.push(ZOp::Drain(a, e, s.clone(), true));
                    v.push(ZOp::Iter(a, e, s.clone(), true));
                }
                v.push(ZOp::Iter(a, e, s.clone(), false));
            }
        }
    }
    v.push(ZOp::Drain(len + 1, len + 1, vec![], false));
    v.push(ZOp::Drain(1, 0, vec![], false));
    v.push(ZOp::Iter(0, usize::MAX, vec![], false));
    if fills {
        v.extend([ZOp::Fill, ZOp::FillWith, ZOp::FillSpare, ZOp::FillSpareWith]);
    }
    v
}

pub fn zst<const N: usize>(ctx: &mut Ctx) {
    let fills = N <= 65537;
    let random_ops = ctx.args.num("ops", 20000);
    let lean = ctx.args.flag("lean");
    let mut cache: std::collections::HashMap<usize, Vec<ZOp>> = Default::default();
    let mut lean_ctr = 0u64;
    // sweep over state descriptors
    for walk in 0..3usize {
        for pf in 0..=4usize {
            for pb in 0..=4usize {
                for popf in 0..=2usize {
                    if lean && (walk == 1 || pf % 2 == 1 || pb == 1 || pb == 2 || popf == 2) {
                        continue;
                    }
                    let (_, len) = build_z::<N>(pf, pb, popf, walk);
                    let live_base = live();
                    let ops: &Vec<ZOp> = cache.entry(len).or_insert_with(|| zops(len, N, fills && !lean));
                    for op in ops.iter() {
                        if lean {
                            // unwinding is very slow under a sanitizer: keep one documented panic in 16
                            lean_ctr += 1;
                            let invalid = match op {
                                ZOp::Index(i) => *i >= len,
                                ZOp::Swap(i, j) => *i >= len || *j >= len,
                                ZOp::Drain(a, e, _, _) | ZOp::Iter(a, e, _, _) => !(*a <= *e && *e <= len),
                                _ => false,
                            };
                            if invalid && lean_ctr % 16 != 0 {
                                continue;
                            }
                        }
                        if !ctx.mine_next() {
                            continue;
                        }
                        let key = hash64(&format!("zst|{}|{}|{}|{}|{}|{:?}", N, walk, pf, pb, popf, op));
                        if !ctx.begin_case(|| format!("zst N={} walk={} push_front={} push_back={} pop_front={} len={} op={:?}", N, walk, pf, pb, popf, len, op)) {
                            continue;
                        }
                        let (mut b, mut l) = build_z::<N>(pf, pb, popf, walk);
                        let ok = zstep(&mut b, &mut l, &op, ctx);
                        if ok {
                            // a few follow-ups: the arithmetic must keep working after the op
                            for f in [ZOp::PushFront, ZOp::PushBack, ZOp::FrontBack, ZOp::AsSlices, ZOp::PopFront, ZOp::PopBack] {
                                if !zstep(&mut b, &mut l, &f, ctx) {
                                    break;
                                }
                            }
                        }
                        let forget = matches!(op, ZOp::Drain(_, _, _, true));
                        let r = catch_unwind(AssertUnwindSafe(move || drop(b)));
                        if r.is_err() {
                            let p = take_last_panic();
                            viol(ctx, N, &op, "drop_panicked", format!("{:?}", p));
                        }
                        if live() != live_base && !forget {
                            viol(ctx, N, &op, "teardown_count", format!("created-dropped = {} after the buffer was dropped", live() - live_base));
                        }
                        if forget {
                            // re-base: leaked elements are allowed
                            let d = live() - live_base;
                            DROPPED.with(|c| c.set((c.get() as i128 + d) as u64));
                        }
                        ctx.distinct.insert(key);
                    }
                }
            }
        }
    }
    // a zero-sized element with a destructor whose clone panics part-way through extend_from_slice /
    // fill / clone: the buffer must stay consistent and nothing created may be leaked (C06)
    for pf in [0usize, 2] {
        for pb in [0usize, 1, 3] {
            for k in 1..=6usize {
                for j in 1..=k {
                    for which in 0..3u8 {
                        if !ctx.mine_next() {
                            continue;
                        }
                        if which > 0 && N > 65537 {
                            continue;
                        }
                        if !ctx.begin_case(|| format!("zst N={} push_front={} push_back={} clone-panic op={} k={} at clone {}", N, pf, pb, ["extend_from_slice", "fill_spare", "clone"][which as usize], k, j)) {
                            continue;
                        }
                        let base = live();
                        let (mut b, l0) = build_z::<N>(pf, pb, 0, 1);
                        let src: Vec<Z> = (0..k).map(|_| Z::new()).collect();
                        CLONE_PANIC_AT.with(|c| c.set(j as u64));
                        let r = catch_unwind(AssertUnwindSafe(|| match which {
                            0 => b.extend_from_slice(&src),
                            1 => b.fill_spare(Z::new()),
                            _ => drop(b.clone()),
                        }));
                        let fired = CLONE_PANIC_AT.with(|c| c.replace(0)) == 0 && r.is_err();
                        let _ = take_last_panic();
                        drop(src);
                        ctx.count("zst_ops", 1);
                        let op = ZOp::ExtendFromSlice(k);
                        if let Err(p) = &r {
                            if p.downcast_ref::<ZInjected>().is_none() {
                                viol(ctx, N, &op, "unexpected_panic", "panicked on its own during a clone-panic case".to_string());
                            }
                        }
                        // consistency of what is left, then conservation on counts
                        let len_now = b.len();
                        if b.iter().count() != len_now || len_now > N {
                            let c = ctx.cur_case.clone();
                            ctx.violation("C06", format!("zst|ncap-class|fault=clone|inconsistent_length"), format!("len() {} but iter yields {}; case={}", len_now, b.iter().count(), c));
                        }
                        if live() - base != len_now as i128 {
                            let c = ctx.cur_case.clone();
                            for p in ["C06", "C19"] {
                                ctx.violation(p, format!("zst|op={}|fault=clone|count_conservation", ["extend_from_slice", "fill_spare", "clone"][which as usize]), format!("after the caught clone panic {} elements are alive but the buffer holds {} (before: {}); case={}", live() - base, len_now, l0, c));
                            }
                        }
                        let rd = catch_unwind(AssertUnwindSafe(move || drop(b)));
                        if rd.is_err() || live() != base {
                            let c = ctx.cur_case.clone();
                            for p in ["C06", "C19"] {
                                ctx.violation(p, format!("zst|op={}|fault=clone|teardown_count", ["extend_from_slice", "fill_spare", "clone"][which as usize]), format!("created - destroyed = {} after the buffer was dropped; case={}", live() - base, c));
                            }
                            DROPPED.with(|c| c.set((c.get() as i128 + (live() - base)) as u64));
                        }
                        if fired {
                            ctx.count("faults_fired", 1);
                            ctx.distinct.insert(hash64(&format!("zst-clone-panic|{}|{}|{}|{}|{}|{}", N, pf, pb, k, j, which)));
                        }
                    }
                }
            }
        }
    }
    // an exactly FULL buffer of () at this capacity (built in O(1) from an array of N units): the
    // arithmetic at len == N == usize::MAX is reachable only this way
    if ctx.mine_next() && ctx.begin_case(|| format!("zst N={} exactly full buffer of () built from [(); N]", N)) {
        let r = catch_unwind(AssertUnwindSafe(|| -> Result<(), String> {
            let chk = |c: bool, m: String| if c { Ok(()) } else { Err(m) };
            let mut b: Box<CircularBuffer<N, ()>> = Box::new(CircularBuffer::from([(); N]));
            chk(b.len() == N && b.is_full() && b.is_empty() == (N == 0), format!("from([(); N]): len {} is_full {}", b.len(), b.is_full()))?;
            chk(b.push_back(()).is_some() && b.len() == N, format!("push_back on the full buffer: len {}", b.len()))?;
            chk(b.push_front(()).is_some() && b.len() == N, format!("push_front on the full buffer: len {}", b.len()))?;
            chk(b.try_push_back(()).is_err() && b.try_push_front(()).is_err() && b.len() == N, "try_push on the full buffer".to_string())?;
            let (x, y) = b.as_slices();
            chk(x.len().checked_add(y.len()) == Some(N), format!("as_slices {} + {}", x.len(), y.len()))?;
            chk(b.iter().len() == N && b.iter_mut().len() == N && b.range(..).len() == N, "iter len".to_string())?;
            if N > 0 {
                chk(b.get(N - 1).is_some() && b.get(N).is_none() && b.nth_back(N - 1).is_some() && b.nth_back(N).is_none(), "get / nth_back at the ends".to_string())?;
                chk(b.front().is_some() && b.back().is_some(), "front/back".to_string())?;
                chk(b.range(N - 1..).len() == 1 && b.range(..=N - 1).len() == N && b.range_mut(N - 1..N).len() == 1, "range at the end".to_string())?;
                b.swap(0, N - 1);
                chk(b.pop_back().is_some() && b.len() == N - 1 && !b.is_full(), "pop_back".to_string())?;
                chk(b.try_push_front(()).is_ok() && b.is_full(), "try_push_front after pop".to_string())?;
                chk(b.pop_front().is_some() && b.push_back(()).is_none() && b.is_full(), "pop_front / push_back".to_string())?;
                chk(b.remove(N - 1).is_some() && b.len() == N - 1, "remove(N-1)".to_string())?;
                if b.len() >= 2 {
                    let l = b.len();
                    chk(b.swap_remove_back(0).is_some() && b.swap_remove_front(l - 2).is_some() && b.swap_remove_front(l - 2).is_none() && b.len() == l - 2, "swap_remove".to_string())?;
                }
                let l = b.len();
                {
                    let mut d = b.drain(l.saturating_sub(2)..);
                    let dl = d.len();
                    let _ = d.next_back();
                    drop(d);
                    chk(b.len() == l - dl, format!("drain of the last {} of {}: len {}", dl, l, b.len()))?;
                }
                b.truncate_front(b.len().saturating_sub(1));
                let l2 = b.len();
                chk(b.make_contiguous().len() == l2, "make_contiguous".to_string())?;
                b.extend_from_slice(&[(), (), ()]);
                chk(b.len() == (l2.saturating_add(3)).min(N), format!("extend_from_slice near full: len {}", b.len()))?;
                b.truncate_back(N / 2);
                chk(b.len() == N / 2, format!("truncate_back(N/2): len {}", b.len()))?;
            }
            b.clear();
            chk(b.is_empty(), "clear".to_string())?;
            Ok(())
        }));
        ctx.count("zst_ops", 24);
        let op = ZOp::PushBack;
        match r {
            Err(_) => {
                let p = take_last_panic();
                viol(ctx, N, &op, "unexpected_panic", format!("an operation on the exactly full buffer panicked: {:?}", p));
            }
            Ok(Err(m)) => viol(ctx, N, &op, "wrong_result", format!("on the exactly full buffer: {}", m)),
            Ok(Ok(())) => {}
        }
        ctx.distinct.insert(hash64(&format!("zst-full|{}", N)));
    }
    // slices only a zero-sized type can have: lengths up to usize::MAX (the call stays O(N))
    if N <= 65537 && ctx.mine_next() && ctx.begin_case(|| format!("zst N={} extend_from_slice with slices of () up to usize::MAX long", N)) {
        static HUGE: [(); usize::MAX] = [(); usize::MAX];
        for pre in [0usize, 1, 2, N] {
            for slen in [usize::MAX, usize::MAX - 1, usize::MAX - N.min(5), 1usize << 63, (1usize << 63) + 1, N, N + 1] {
                let r = catch_unwind(AssertUnwindSafe(|| {
                    let mut b: Box<CircularBuffer<N, ()>> = Box::new(CircularBuffer::new());
                    for _ in 0..pre.min(N) {
                        b.push_back(());
                    }
                    let before = b.len();
                    b.extend_from_slice(&HUGE[..slen]);
                    (before, b.len(), b.is_full(), b.iter().count())
                }));
                ctx.count("zst_ops", 1);
                let op = ZOp::ExtendFromSlice(slen);
                match r {
                    Err(_) => {
                        let p = take_last_panic();
                        viol(ctx, N, &op, "unexpected_panic", format!("extend_from_slice(&[(); {}]) on {} elements panicked: {:?}", slen, pre.min(N), p));
                    }
                    Ok((before, after, full, cnt)) => {
                        let want = if N == 0 { 0 } else { before.saturating_add(slen).min(N) };
                        if after != want || full != (want == N) || cnt != want {
                            viol(ctx, N, &op, "wrong_len", format!("extend_from_slice(&[(); {}]) on {} elements: len {} (is_full {}, iter count {}), expected {}", slen, before, after, full, cnt, want));
                        }
                    }
                }
            }
        }
        ctx.distinct.insert(hash64(&format!("zst-huge-slice|{}", N)));
    }
    // random histories
    ctx.can_skip = false;
    let mut rng = Rng::new(ctx.args.seed ^ hash64(&format!("zst|{}|{}", N, ctx.args.shard.0)));
    let mut done = 0;
    while done < random_ops {
        let (pf, pb, popf, walk) = (rng.below(5) as usize, rng.below(5) as usize, rng.below(3) as usize, rng.below(3) as usize);
        let desc = format!("zst-random N={} seed={} shard={} history@{} pf={} pb={} popf={} walk={}", N, ctx.args.seed, ctx.args.shard.0, done, pf, pb, popf, walk);
        let _ = ctx.begin_case(|| desc);
        let base = live();
        let (mut b, mut l) = build_z::<N>(pf, pb, popf, walk);
        let hist = 30 + rng.below(100);
        let mut leaked = false;
        for _ in 0..hist {
            if l > 12 {
                zstep(&mut b, &mut l, &ZOp::TruncateFront(rng.below(6) as usize), ctx);
            }
            let ops = zops(l, N, false);
            let mut op = rng.pick(&ops).clone();
            if fills && N <= 16 && rng.chance(1, 20) {
                op = rng.pick(&[ZOp::Fill, ZOp::FillWith, ZOp::FillSpare, ZOp::FillSpareWith]).clone();
            }
            if matches!(op, ZOp::Drain(_, _, _, true)) {
                leaked = true;
            }
            ctx.distinct.insert(hash64(&format!("zr|{}|{}|{}|{}", N, op.name(), l == 0, l.min(3))));
            if !zstep(&mut b, &mut l, &op, ctx) {
                break;
            }
        }
        let r = catch_unwind(AssertUnwindSafe(move || drop(b)));
        if r.is_err() {
            let _ = take_last_panic();
            viol(ctx, N, &ZOp::Clear, "drop_panicked", "buffer drop panicked".into());
        }
        if !leaked && live() != base {
            viol(ctx, N, &ZOp::Clear, "teardown_count", format!("created-dropped = {} after history", live() - base));
        }
        if leaked {
            let d = live() - base;
            DROPPED.with(|c| c.set((c.get() as i128 + d) as u64));
        }
        done += hist;
        ctx.evaluations += hist - 1;
    }
    let _ = script_str(&[]);
}
