//! Double-ended exact-size protocol of iter / iter_mut / range / range_mut / into_iter (C08).

use crate::engine::*;
use crate::model::run_script;
use crate::ops::*;
use crate::term::into_iter_case;
use crate::tok::*;
use crate::util::{hash64, Ctx};
use circular_buffer::{Iter, IterMut};

#[derive(Clone, Copy, Debug, PartialEq, Eq)]
enum Kind {
    Iter,
    IterMut,
    Range,
    RangeMut,
}

fn bad(ctx: &mut Ctx, n: usize, kind: Kind, what: &str, detail: String) {
    let c = ctx.cur_case.clone();
    ctx.violation("C08", format!("iter={:?}|ncap={}|{}", kind, ncls(n), what), format!("{}; case={}", detail, c));
}

/// run `script` on a shared iterator, checking items (identity + address), len and size_hint at
/// every step, and that a clone taken at every step continues independently
fn drive_shared<'a, const N: usize, P: Pad>(
    mut it: Iter<'a, TokG<P>>,
    obs: &Obs,
    a: usize,
    b: usize,
    script: &[Step],
    kind: Kind,
    ctx: &mut Ctx,
) {
    let (want, _, _) = run_script(a, b, script);
    let mut w = Win { lo: a, hi: b };
    for (i, s) in script.iter().enumerate() {
        let (lo, hi) = (w.lo, w.hi);
        let rem = hi - lo;
        if it.len() != rem || it.size_hint() != (rem, Some(rem)) {
            bad(ctx, N, kind, "wrong_len", format!("step {}: len()={} size_hint={:?} expected {}", i, it.len(), it.size_hint(), rem));
        }
        // a clone continues independently from the same point
        let c = it.clone();
        let cl: Vec<(u64, usize)> = c.map(|t| (t.peek("iter.clone").0, t as *const TokG<P> as usize)).collect();
        let wcl: Vec<(u64, usize)> = (lo..hi).map(|p| (obs.ids[p], obs.addrs[p])).collect();
        if cl != wcl {
            bad(ctx, N, kind, "clone_diverges", format!("step {}: clone yields {:?} expected {:?}", i, cl, wcl));
        }
        let x = apply_step(&mut it, *s);
        let got = x.map(|t| (t.peek("iter.item").0, t as *const TokG<P> as usize));
        let wi = want[i].map(|p| (obs.ids[p], obs.addrs[p]));
        if got != wi {
            bad(ctx, N, kind, "wrong_item", format!("step {} {:?}: got {:?} expected {:?}", i, s, got, wi));
        }
        w.step(*s);
        // the clone taken before this step is unaffected (checked above by construction); the
        // original must now have one fewer
        ctx.count("iter_steps", 1);
    }
    let (lo, hi) = (w.lo, w.hi);
    let rem = hi - lo;
    if it.len() != rem {
        bad(ctx, N, kind, "wrong_len", format!("end: len()={} expected {}", it.len(), rem));
    }
    // Debug of the iterator lists the remaining elements
    let d = format!("{:?}", it);
    let wd = format!("{:?}", &obs.vals[lo..hi]);
    if d != wd {
        bad(ctx, N, kind, "debug", format!("Debug {} expected {}", d, wd));
    }
    // drain the rest: exactly the remaining ones, then None forever
    let rest: Vec<u64> = it.by_ref().map(|t| t.peek("iter.rest").0).collect();
    if rest != obs.ids[lo..hi] {
        bad(ctx, N, kind, "wrong_rest", format!("remaining {:?} expected {:?}", rest, &obs.ids[lo..hi]));
    }
    if it.next().is_some() || it.next_back().is_some() || it.next().is_some() || it.len() != 0 {
        bad(ctx, N, kind, "some_after_none", "iterator yielded after exhaustion".to_string());
    }
}

fn drive_mut<'a, const N: usize, P: Pad>(
    mut it: IterMut<'a, TokG<P>>,
    obs: &Obs,
    a: usize,
    b: usize,
    script: &[Step],
    kind: Kind,
    ctx: &mut Ctx,
) {
    let (want, _, _) = run_script(a, b, script);
    let mut w = Win { lo: a, hi: b };
    // all yielded &mut are kept alive together: no two may address the same slot
    let mut held: Vec<&'a mut TokG<P>> = Vec::new();
    let mut skipped: Vec<usize> = Vec::new();
    for (i, s) in script.iter().enumerate() {
        let rem = w.len();
        if it.len() != rem || it.size_hint() != (rem, Some(rem)) {
            bad(ctx, N, kind, "wrong_len", format!("step {}: len()={} size_hint={:?} expected {}", i, it.len(), it.size_hint(), rem));
        }
        let x = apply_step(&mut it, *s);
        let got = x.map(|t| {
            let k = (t.peek("itermut.item").0, t as *const TokG<P> as usize);
            held.push(t);
            k
        });
        let wi = want[i].map(|p| (obs.ids[p], obs.addrs[p]));
        if got != wi {
            bad(ctx, N, kind, "wrong_item", format!("step {} {:?}: got {:?} expected {:?}", i, s, got, wi));
        }
        // positions skipped by nth / nth_back are consumed without being handed out
        let before = w;
        w.step(*s);
        for p in before.lo..w.lo {
            if Some(p) != want[i] {
                skipped.push(p);
            }
        }
        for p in w.hi..before.hi {
            if Some(p) != want[i] {
                skipped.push(p);
            }
        }
        ctx.count("iter_steps", 1);
    }
    let (lo, hi) = (w.lo, w.hi);
    let d = format!("{:?}", it);
    let wd = format!("{:?}", &obs.vals[lo..hi]);
    if d != wd {
        bad(ctx, N, kind, "debug", format!("Debug {} expected {}", d, wd));
    }
    for t in it.by_ref() {
        held.push(t);
    }
    if it.next().is_some() || it.next_back().is_some() || it.len() != 0 {
        bad(ctx, N, kind, "some_after_none", "iterator yielded after exhaustion".to_string());
    }
    // write through every reference while all are alive
    let mut addrs: Vec<usize> = Vec::new();
    for t in held.iter_mut() {
        let v = t.val;
        t.set_val(v);
        addrs.push(*t as *const TokG<P> as usize);
    }
    addrs.sort_unstable();
    if addrs.windows(2).any(|w| w[0] == w[1]) {
        bad(ctx, N, kind, "aliased_mut", format!("iter_mut yielded one address twice: {:?}", addrs));
    }
    let mut wa: Vec<usize> = (a..b).filter(|p| !skipped.contains(p)).map(|p| obs.addrs[p]).collect();
    wa.sort_unstable();
    if addrs != wa {
        bad(ctx, N, kind, "wrong_set", format!("iter_mut yielded addresses {:?} expected {:?}", addrs, wa));
    }
}

/// internal iteration (an iterator may override fold / rfold / count / last / for_each ...): same
/// sequence, same order
fn internal_shared<'a, const N: usize, P: Pad>(mk: impl Fn() -> Iter<'a, TokG<P>>, obs: &Obs, a: usize, b: usize, kind: Kind, ctx: &mut Ctx) {
    let want: Vec<u64> = obs.ids[a..b].to_vec();
    let got = mk().fold(Vec::new(), |mut v, t| {
        v.push(t.peek("iter.fold").0);
        v
    });
    if got != want {
        bad(ctx, N, kind, "fold_order", format!("fold visited {:?} expected {:?}", got, want));
    }
    let mut got = mk().rfold(Vec::new(), |mut v, t| {
        v.push(t.peek("iter.rfold").0);
        v
    });
    got.reverse();
    if got != want {
        bad(ctx, N, kind, "rfold_order", format!("rfold visited (reversed) {:?} expected {:?}", got, want));
    }
    let mut fe = Vec::new();
    mk().for_each(|t| fe.push(t.peek("iter.for_each").0));
    if fe != want {
        bad(ctx, N, kind, "for_each_order", format!("for_each visited {:?} expected {:?}", fe, want));
    }
    if mk().count() != want.len() || mk().last().map(|t| t.id) != want.last().copied() {
        bad(ctx, N, kind, "count_last", format!("count()/last() disagree with {:?}", want));
    }
    let c: Vec<u64> = mk().rev().map(|t| t.id).collect();
    let mut wr = want.clone();
    wr.reverse();
    if c != wr {
        bad(ctx, N, kind, "rev_collect", format!("rev().collect() {:?} expected {:?}", c, wr));
    }
    let sk: Vec<u64> = mk().skip(1).step_by(2).map(|t| t.id).collect();
    let ws: Vec<u64> = want.iter().skip(1).step_by(2).copied().collect();
    if sk != ws {
        bad(ctx, N, kind, "skip_step_by", format!("skip(1).step_by(2) {:?} expected {:?}", sk, ws));
    }
    ctx.count("internal_iterations", 6);
}

pub fn iters<const N: usize, P: Pad>(ctx: &mut Ctx) {
    ctx.panic_props = vec!["C08", "C11", "C07"];
    let routes: Vec<u8> = ctx.args.list("routes", &[0, 1, 2]).iter().map(|&x| x as u8).collect();
    let starts = if N == 0 { 1 } else { N };
    let _ = items_off::<N, P>();
    let mut vc = 999u32;
    let mut all_scripts = scripts_upto(N + 2);
    all_scripts.extend(nth_scripts());
    // default-constructed iterators are empty
    if ctx.mine_next() && ctx.begin_case(|| format!("iters N={} default-constructed iterators", N)) {
        let mut i: Iter<'_, TokG<P>> = Default::default();
        let mut m: IterMut<'_, TokG<P>> = Default::default();
        if i.len() != 0 || i.next().is_some() || i.next_back().is_some() || m.len() != 0 || m.next().is_some() || m.next_back().is_some() {
            bad(ctx, N, Kind::Iter, "default_not_empty", "Iter::default()/IterMut::default() yielded an element".into());
        }
        ctx.distinct.insert(hash64(&format!("default|{}", N)));
    }
    for start in 0..starts {
        for len in 0..=N {
            for a in 0..=len {
                for b in a..=len {
                    let sel = b - a;
                    let forms: Vec<Option<Rg>> = if a == 0 && b == len {
                        let mut f: Vec<Option<Rg>> = vec![None];
                        f.extend(valid_range_forms(a, b, len).into_iter().map(Some));
                        f
                    } else {
                        valid_range_forms(a, b, len).into_iter().map(Some).collect()
                    };
                    for form in forms {
                        for script in all_scripts.iter().filter(|s| s.len() <= sel + 2) {
                            if !ctx.mine_next() {
                                continue;
                            }
                            let key = hash64(&format!("{}|{}|{}|{}|{:?}|{}", N, P::NAME, start, len, form, script_str(script)));
                            for &route in &routes {
                                if N == 0 && route != 0 {
                                    continue;
                                }
                                for mutable in [false, true] {
                                    let kind = match (form.is_some(), mutable) {
                                        (false, false) => Kind::Iter,
                                        (false, true) => Kind::IterMut,
                                        (true, false) => Kind::Range,
                                        (true, true) => Kind::RangeMut,
                                    };
                                    if !ctx.begin_case(|| {
                                        format!(
                                            "iters N={} T={} route={} start={} len={} {:?} range={} script={}",
                                            N, P::NAME, route_name(route), start, len, kind,
                                            form.map(rg_str).unwrap_or_else(|| "-".into()), script_str(script)
                                        )
                                    }) {
                                        continue;
                                    }
                                    ledger_reset();
                                    let (mut h, model) = build::<N, P>(route, start, len, None, &mut vc);
                                    let obs = observe(h.buf_ref());
                                    if obs.pairs() != model {
                                        ctx.violation("C01", format!("op=build:{}|ncap={}|wrong_contents", route_name(route), ncls(N)), format!("builder mismatch; case={}", ctx.cur_case));
                                        std::mem::forget(h);
                                        continue;
                                    }
                                    if let Some((s, l)) = measured_layout(h.buf_ref(), &obs) {
                                        ctx.layouts.insert(hash64(&format!("{}|{}|{}|{}", N, P::NAME, s, l)));
                                    }
                                    if script.is_empty() {
                                        match (form, mutable) {
                                            (None, false) => internal_shared::<N, P>(|| h.buf_ref().iter(), &obs, a, b, kind, ctx),
                                            (Some(r), false) => {
                                                with_range!(r, |rr| internal_shared::<N, P>(|| h.buf_ref().range(rr.clone()), &obs, a, b, kind, ctx))
                                            }
                                            (None, true) => {
                                                let want: Vec<u64> = obs.ids[a..b].to_vec();
                                                let got = h.buf().iter_mut().fold(Vec::new(), |mut v, t| {
                                                    v.push(t.peek("itermut.fold").0);
                                                    v
                                                });
                                                let mut rg = h.buf().iter_mut().rfold(Vec::new(), |mut v, t| {
                                                    v.push(t.peek("itermut.rfold").0);
                                                    v
                                                });
                                                rg.reverse();
                                                let mut fe = Vec::new();
                                                h.buf().iter_mut().enumerate().for_each(|(_, t)| fe.push(t.id));
                                                if got != want || rg != want || fe != want || h.buf().iter_mut().count() != want.len() {
                                                    bad(ctx, N, kind, "fold_order", format!("internal iteration visited {:?} / {:?} / {:?} expected {:?}", got, rg, fe, want));
                                                    // the mutable references are handed out in the wrong order: a write through
                                                    // this view lands on the wrong position (C07), i.e. the contents after an
                                                    // order-dependent for_each are not the documented ones (C01)
                                                    let c = ctx.cur_case.clone();
                                                    for p in ["C07", "C01"] {
                                                        ctx.violation(p, format!("iter={:?}|ncap={}|fold_order", kind, ncls(N)), format!("internal iteration over the mutable view visited {:?} expected {:?}; case={}", got, want, c));
                                                    }
                                                }
                                            }
                                            (Some(r), true) => {
                                                let want: Vec<u64> = obs.ids[a..b].to_vec();
                                                let (got, rg, fe) = with_range!(r, |rr| {
                                                    let got = h.buf().range_mut(rr.clone()).fold(Vec::new(), |mut v, t| {
                                                        v.push(t.peek("itermut.fold").0);
                                                        v
                                                    });
                                                    let mut rg = h.buf().range_mut(rr.clone()).rfold(Vec::new(), |mut v, t| {
                                                        v.push(t.peek("itermut.rfold").0);
                                                        v
                                                    });
                                                    rg.reverse();
                                                    let mut fe = Vec::new();
                                                    h.buf().range_mut(rr.clone()).for_each(|t| fe.push(t.id));
                                                    (got, rg, fe)
                                                });
                                                if got != want || rg != want || fe != want {
                                                    bad(ctx, N, kind, "fold_order", format!("internal iteration visited {:?} / {:?} / {:?} expected {:?}", got, rg, fe, want));
                                                    let c = ctx.cur_case.clone();
                                                    for p in ["C07", "C01"] {
                                                        ctx.violation(p, format!("iter={:?}|ncap={}|fold_order", kind, ncls(N)), format!("internal iteration over the mutable view visited {:?} expected {:?}; case={}", got, want, c));
                                                    }
                                                }
                                            }
                                        }
                                    }
                                    match (form, mutable) {
                                        (None, false) => drive_shared::<N, P>(h.buf_ref().iter(), &obs, a, b, script, kind, ctx),
                                        (None, true) => drive_mut::<N, P>(h.buf().iter_mut(), &obs, a, b, script, kind, ctx),
                                        (Some(r), false) => {
                                            with_range!(r, |rr| drive_shared::<N, P>(h.buf_ref().range(rr), &obs, a, b, script, kind, ctx))
                                        }
                                        (Some(r), true) => {
                                            with_range!(r, |rr| drive_mut::<N, P>(h.buf().range_mut(rr), &obs, a, b, script, kind, ctx))
                                        }
                                    }
                                    ctx.distinct.insert(hash64(&format!("{}|{:?}", key, kind)));
                                    // the buffer is untouched by iteration
                                    let post = observe(h.buf_ref());
                                    if post.pairs() != model || post.addrs != obs.addrs {
                                        bad(ctx, N, kind, "buffer_changed", format!("before {:?} after {:?}", model, post.pairs()));
                                    }
                                    teardown(h, ctx, "iterate", None, false);
                                }
                                // internal iteration over the owning iterator and over a drain
                                if script.is_empty() {
                                    if !ctx.begin_case(|| format!("iters N={} T={} route={} start={} len={} internal iteration of IntoIter/Drain range={}", N, P::NAME, route_name(route), start, len, form.map(rg_str).unwrap_or_else(|| "-".into()))) {
                                        continue;
                                    }
                                    ledger_reset();
                                    let (mut h, model) = build::<N, P>(route, start, len, None, &mut vc);
                                    let want: Vec<u64> = model[a..b].iter().map(|x| x.0).collect();
                                    let rest: Vec<u64> = model[..a].iter().chain(model[b..].iter()).map(|x| x.0).collect();
                                    let (got, after) = match form {
                                        None => {
                                            let buf = crate::term::take_buf(&mut h);
                                            let mut g: Vec<u64> = buf.into_iter().rfold(Vec::new(), |mut v, t| {
                                                v.push(t.peek("into_iter.rfold").0);
                                                v
                                            });
                                            g.reverse();
                                            (g, Vec::new())
                                        }
                                        Some(r) => {
                                            let g = with_range!(r, |rr| h.buf().drain(rr).fold(Vec::new(), |mut v, t| {
                                                v.push(t.peek("drain.fold").0);
                                                v
                                            }));
                                            (g, observe(h.buf_ref()).ids)
                                        }
                                    };
                                    if got != want || after != if form.is_some() { rest.clone() } else { Vec::new() } {
                                        let c = ctx.cur_case.clone();
                                        ctx.violation(
                                            if form.is_some() { "C09" } else { "C08" },
                                            format!("iter={}|ncap={}|fold_order", if form.is_some() { "Drain" } else { "IntoIter" }, ncls(N)),
                                            format!("internal iteration yielded {:?} expected {:?}; contents afterwards {:?} expected {:?}; case={}", got, want, after, rest, c),
                                        );
                                    }
                                    teardown(h, ctx, "internal_iteration", None, false);
                                }
                                // owning iterator: whole buffer only
                                if form.is_none() {
                                    if !ctx.begin_case(|| {
                                        format!("iters N={} T={} route={} start={} len={} IntoIter script={}", N, P::NAME, route_name(route), start, len, script_str(script))
                                    }) {
                                        continue;
                                    }
                                    ledger_reset();
                                    let (h, model) = build::<N, P>(route, start, len, None, &mut vc);
                                    let clone_at = if script.len() % 3 == 1 { Some(script.len() / 2) } else { None };
                                    into_iter_case(h, &model, script, clone_at, None, ctx);
                                    ctx.distinct.insert(hash64(&format!("{}|into_iter", key)));
                                }
                            }
                        }
                    }
                }
            }
        }
    }
}
