//! Seeded random hostile histories with all monitors on.

use crate::engine::*;
use crate::ops::*;
use crate::tok::*;
use crate::util::{hash64, Ctx, Rng};

fn rnd_index(rng: &mut Rng, len: usize, n: usize) -> usize {
    match rng.below(10) {
        0 => len,
        1 => len + 1,
        2 => usize::MAX,
        3 => n,
        4 => len.wrapping_sub(1),
        5 => 0,
        _ => rng.below(len.max(1) as u64) as usize,
    }
}

fn rnd_bound(rng: &mut Rng, len: usize, lo: bool) -> B {
    let v = match rng.below(12) {
        0 => len + 1,
        1 => usize::MAX,
        2 => len,
        _ => rng.below(len as u64 + 1) as usize,
    };
    match rng.below(if lo { 6 } else { 5 }) {
        0 => B::U,
        1 | 2 => {
            if lo {
                B::I(v)
            } else {
                B::E(v)
            }
        }
        3 => {
            if lo {
                B::E(v.wrapping_sub(1))
            } else {
                B::I(v.wrapping_sub(1))
            }
        }
        _ => {
            if lo {
                B::I(v)
            } else {
                B::E(v)
            }
        }
    }
}

fn rnd_range(rng: &mut Rng, len: usize) -> Rg {
    if rng.chance(5, 6) {
        // mostly valid
        let a = rng.below(len as u64 + 1) as usize;
        let b = a + rng.below((len - a) as u64 + 1) as usize;
        let forms = valid_range_forms(a, b, len);
        *rng.pick(&forms)
    } else {
        (rnd_bound(rng, len, true), rnd_bound(rng, len, false))
    }
}

fn rnd_script(rng: &mut Rng, max: usize) -> Vec<Step> {
    let l = rng.below(max as u64 + 3) as usize;
    (0..l)
        .map(|_| match rng.below(9) {
            0..=3 => Step::F,
            4..=7 => Step::B,
            _ => {
                if rng.chance(1, 2) {
                    Step::N(1 + rng.below(2) as u8)
                } else {
                    Step::NB(1 + rng.below(2) as u8)
                }
            }
        })
        .collect()
}

/// an operation drawn with a bias towards wrap, eviction, boundary and out-of-range arguments
pub fn gen_op(rng: &mut Rng, n: usize, len: usize, allow_forget: bool) -> Op {
    let big = n > 32;
    let small_k = |rng: &mut Rng| -> usize {
        match rng.below(8) {
            0 => 0,
            1 => n - len.min(n),
            2 => (n - len.min(n)) + 1,
            3 if !big => n,
            4 if !big => n + 1 + rng.below(n as u64 + 1) as usize,
            _ => rng.below(if big { 40 } else { n as u64 + 2 }) as usize,
        }
    };
    match rng.below(if big { 53 } else { 56 }) {
        0..=5 => Op::PushBack,
        6..=9 => Op::PushFront,
        10 => Op::TryPushBack,
        11 => Op::TryPushFront,
        12..=13 => Op::PopBack,
        14..=16 => Op::PopFront,
        17..=18 => Op::Remove(rnd_index(rng, len, n)),
        19 => Op::Swap(rnd_index(rng, len, n), rnd_index(rng, len, n)),
        20 => Op::SwapRemoveBack(rnd_index(rng, len, n)),
        21 => Op::SwapRemoveFront(rnd_index(rng, len, n)),
        22 => Op::TruncateBack(rnd_index(rng, len, n)),
        23 => Op::TruncateFront(rnd_index(rng, len, n)),
        24..=25 => Op::Extend(small_k(rng)),
        26 => Op::ExtendHinted(small_k(rng), 1 + rng.below(4) as u8),
        27..=29 => Op::ExtendFromSlice(small_k(rng)),
        30..=32 => {
            let r = rnd_range(rng, len);
            let max = if big { 6 } else { len };
            let end = if allow_forget && rng.chance(1, 12) { End::Forget } else { End::Drop };
            Op::Drain(r, rnd_script(rng, max), end)
        }
        33 => Op::MakeContiguous(rng.chance(1, 3)),
        34..=36 => {
            let view = *rng.pick(&MUT_VIEWS);
            let mode = match rng.below(3) {
                0 => WMode::Peek,
                1 => WMode::SetVal(rng.below(4) as u32),
                _ => WMode::Replace,
            };
            Op::Write(view, rnd_index(rng, len, n), mode)
        }
        37 => Op::Get(rnd_index(rng, len, n)),
        38 => Op::NthBack(rnd_index(rng, len, n)),
        39 => Op::Index(rnd_index(rng, len, n)),
        40 => Op::RangeCollect(rnd_range(rng, len)),
        41 => Op::RangeMutCollect(rnd_range(rng, len)),
        42 => rng.pick(&[Op::Front, Op::Back, Op::Quad, Op::AsSlices, Op::AsMutSlices]).clone(),
        43 => Op::IterCollect(rng.chance(1, 2)),
        44 => Op::IterMutCollect(rng.chance(1, 2)),
        45 => Op::ToVec,
        46 => Op::DebugFmt(rng.below(crate::model::FMT_SPECS as u64) as usize),
        47 => Op::FillSpareWith,
        48 => Op::FillSpare,
        49 => {
            if rng.chance(1, 3) {
                Op::Clear
            } else {
                Op::NthFront(rnd_index(rng, len, n))
            }
        }
        // the O(N)-heavy ones only at small capacities
        50 => Op::Fill,
        51 => Op::FillWith,
        52 => Op::CloneBuf,
        53 => Op::CloneFrom(SrcDesc {
            route: rng.below(3) as u8,
            start: rng.below(n.max(1) as u64) as usize,
            len: rng.below(n as u64 + 1) as usize,
        }),
        54 => rng.pick(&[Op::HashSelf, Op::EqSelf, Op::CmpSelf]).clone(),
        _ => Op::Clear,
    }
}

fn fault_kinds_for(op: &Op) -> &'static [FpKind] {
    match op {
        Op::TruncateBack(_) | Op::TruncateFront(_) | Op::Clear | Op::Drain(_, _, End::Drop) => &[FpKind::Drop],
        Op::Extend(_) | Op::ExtendHinted(..) => &[FpKind::Drop, FpKind::IterNext],
        Op::ExtendFromSlice(_) | Op::Fill | Op::CloneFrom(_) => &[FpKind::Drop, FpKind::Clone],
        Op::FillSpare | Op::ToVec | Op::CloneBuf => &[FpKind::Clone],
        Op::FillWith => &[FpKind::Drop, FpKind::Closure],
        Op::FillSpareWith => &[FpKind::Closure],
        Op::EqSelf => &[FpKind::Eq],
        Op::CmpSelf | Op::MakeContiguous(true) => &[FpKind::Cmp],
        Op::HashSelf => &[FpKind::Hash],
        Op::DebugFmt(_) => &[FpKind::Fmt],
        _ => &[],
    }
}

pub fn random<const N: usize, P: Pad>(ctx: &mut Ctx) {
    let total = ctx.args.num("ops", 20_000);
    let with_faults = ctx.args.flag("faults");
    let repaint = ctx.args.flag("repaint") && !P::HEAP;
    ctx.can_skip = false;
    let _ = items_off::<N, P>();
    let mut rng = Rng::new(ctx.args.seed ^ hash64(&format!("random|{}|{}|{}", N, P::NAME, ctx.args.shard.0)));
    let big = N > 32;
    let mut done = 0u64;
    let mut vc: u32 = (rng.next() & 0xFFFF) as u32;
    while done < total {
        // one history: fresh buffer in a random layout, a few hundred operations
        let route = *rng.pick(&ROUTES_ALL);
        let start = rng.below(N.max(1) as u64) as usize;
        let len0 = rng.below(N as u64 + 1) as usize;
        let hist = 50 + rng.below(400);
        let desc = format!(
            "random N={} T={} seed={} shard={} history@op{} route={} start={} len={}",
            N, P::NAME, ctx.args.seed, ctx.args.shard.0, done, route_name(route), start, len0
        );
        let _ = ctx.begin_case(|| desc);
        let res = std::panic::catch_unwind(std::panic::AssertUnwindSafe(|| {
            ledger_reset();
            let (mut h, mut model) = build::<N, P>(route, start, len0, Some(0x5A), &mut vc);
            let mut env = Env::<N, P>::new(vc);
            let mut pre = observe(h.buf_ref());
            if pre.pairs() != model {
                ctx.violation("C01", format!("op=build:{}|ncap={}|wrong_contents", route_name(route), ncls(N)), format!("builder mismatch; case={}", ctx.cur_case));
                std::mem::forget(h);
                return;
            }
            let mut leaked = false;
            let reports_at_start = ctx.total_reports;
            let dead = TokG::<P>::new(3);
            let dead_img = image(&dead);
            let dead_id = dead.id;
            drop(dead);
            let live_tok = TokG::<P>::new_pinned(2);
            let live_img = image(&live_tok);
            for i in 0..hist {
                let op = gen_op(&mut rng, N, model.len(), true);
                let full = !big || (i % 64 == 0);
                let mon = if full { MonCfg::FULL } else { MonCfg::LIGHT };
                if repaint && rng.chance(1, 6) {
                    let f = *rng.pick(&FILLINGS);
                    if let Some(b) = poke(h.buf(), f, &dead_img, &live_img) {
                        ctx.count("garbage_bytes_poked", b as u64);
                    }
                }
                let lay = measured_layout(h.buf_ref(), &pre);
                let mut fault = None;
                // no fault is injected into a history that has already deviated: whatever a fault
                // would show there could not be told apart from the earlier defect
                if with_faults && ctx.total_reports == reports_at_start && rng.chance(1, 12) {
                    let ks = fault_kinds_for(&op);
                    if !ks.is_empty() {
                        let f = (*rng.pick(ks), 1 + rng.below(3) as u32);
                        // the dry run of this history step: same operation, no fault, on a fresh
                        // buffer in the same layout. If that already deviates, no fault is injected.
                        if !control_exec(&h, &model, &op, ctx, &mon) {
                            fault = Some(f);
                        }
                    }
                }
                if ctx.attribute.is_some() {
                    control_step(&h, &model, &op, ctx, &mon);
                }
                let out = step(&mut h, &mut model, &op, &mut env, ctx, &mon, fault, Some(&pre));
                if repaint {
                    for (k, id) in out.events.iter().zip(out.event_ids.iter()) {
                        let _ = id;
                        {
                            let c = ctx.cur_case.clone();
                            ctx.violation(
                                "C04",
                                format!("op={}|ncap={}|touched_injected_copy:{}", op.name(), ncls(N), k.split('@').next().unwrap_or("")),
                                format!("{:?} touched garbage planted in an unoccupied slot ({}); case={}", op, k, c),
                            );
                        }
                    }
                }
                if out.injected {
                    // whatever goes wrong from here on in this history refutes the fault property
                    let k = fault.unwrap().0;
                    // ... unless this history had already deviated before any fault was injected
                    if ctx.total_reports == reports_at_start {
                        ctx.attribute = Some(if k == FpKind::Drop { "C05" } else { "C06" });
                    }
                    if k == FpKind::Drop {
                        leaked = true;
                    }
                    ctx.distinct.insert(hash64(&format!("fault|{}|{}|{:?}|{}", N, op.name(), k, layout_class(N, lay, pre.ids.len()))));
                }
                if matches!(op, Op::Drain(_, _, End::Forget)) {
                    leaked = true;
                }
                // distinct (N, layout class or exact small layout, op, argument class)
                let lkey = if N <= 16 { format!("{:?}", lay) } else { layout_class(N, lay, pre.ids.len()).to_string() };
                let akey = op_arg_class(&op, pre.ids.len(), N);
                if op.is_mutator() || out.panicked {
                    ctx.distinct.insert(hash64(&format!("{}|{}|{}|{}|{}", N, P::NAME, lkey, op.name(), akey)));
                }
                if let Some((s, l)) = lay {
                    if N <= 64 {
                        ctx.layouts.insert(hash64(&format!("{}|{}|{}|{}", N, P::NAME, s, l)));
                    } else {
                        ctx.layouts.insert(hash64(&format!("{}|{}|{}|{}", N, P::NAME, s * 16 / N, l * 16 / N)));
                    }
                }
                pre = observe(h.buf_ref());
                if pre.pairs() != model {
                    // step() already reported; resync
                    model = pre.pairs();
                }
            }
            vc = env.vc;
            teardown(h, ctx, "history", None, leaked);
            let live_id = live_tok.id;
            let live_ok = ledger_is_live(live_id);
            drop(live_tok);
            let evs = flush_events_ids(ctx, "history", N, "after_history", None);
            if repaint && (!live_ok || evs.iter().any(|x| x.1 == live_id || x.1 == dead_id)) {
                let c = ctx.cur_case.clone();
                ctx.violation("C04", format!("op=history|ncap={}|injected_copy_destroyed", ncls(N)), format!("a byte-copy planted in an unoccupied slot was destroyed through the buffer; case={}", c));
            }
        }));
        ctx.attribute = None;
        if res.is_err() {
            ctx.record_escaped_panic();
        }
        done += hist;
        ctx.evaluations += hist - 1;
    }
}

pub fn op_arg_class(op: &Op, len: usize, n: usize) -> String {
    match op {
        Op::Remove(i) | Op::SwapRemoveBack(i) | Op::SwapRemoveFront(i) | Op::TruncateBack(i) | Op::TruncateFront(i)
        | Op::Get(i) | Op::NthFront(i) | Op::NthBack(i) | Op::Index(i) => arg_class(*i, len, n).to_string(),
        Op::Swap(i, j) => format!("{},{}", arg_class(*i, len, n), arg_class(*j, len, n)),
        Op::Extend(k) | Op::ExtendFromSlice(k) | Op::ExtendHinted(k, _) => {
            let free = n - len.min(n);
            if *k == 0 {
                "0".into()
            } else if *k < free {
                "<free".into()
            } else if *k == free {
                "=free".into()
            } else if *k < n {
                "<N".into()
            } else if *k == n {
                "=N".into()
            } else {
                ">N".into()
            }
        }
        Op::Drain(r, s, e) => match crate::model::resolve_range(*r, len) {
            None => "invalid".into(),
            Some((a, b)) => format!(
                "{}-{}-{}|{}{:?}",
                if a == 0 { "front" } else { "mid" },
                if b == a { "empty" } else if b == len { "toend" } else { "inner" },
                s.len().min(3),
                if s.len() >= b - a { "all" } else { "part" },
                e
            ),
        },
        Op::RangeCollect(r) | Op::RangeMutCollect(r) => match crate::model::resolve_range(*r, len) {
            None => "invalid".into(),
            Some((a, b)) => format!("{}{}", if a == 0 { "front" } else { "mid" }, if b == len { "toend" } else { "inner" }),
        },
        Op::Write(_, i, m) => format!("{}|{:?}", arg_class(*i, len, n), std::mem::discriminant(m)),
        _ => String::new(),
    }
}
