//! Complete drain space (C09) and leaked drains (C10): every layout x every range a<=b<=len in every
//! RangeBounds form x every script over {next, next_back} of length 0..=b-a+1, drain dropped (C09)
//! or leaked with mem::forget (C10) after the script, then follow-up operations and teardown.

use crate::engine::*;
use crate::ops::*;
use crate::random::gen_op;
use crate::tok::*;
use crate::util::{hash64, Ctx, Rng};

const FOLLOW: [Op; 8] = [
    Op::Quad,
    Op::Drain((B::U, B::U), vec![], End::Drop),
    Op::PushBack,
    Op::ExtendFromSlice(3),
    Op::MakeContiguous(false),
    Op::PushFront,
    Op::PopBack,
    Op::Clear,
];

pub fn drain<const N: usize, P: Pad>(ctx: &mut Ctx) {
    let forget = ctx.args.flag("forget");
    let lean = ctx.args.flag("lean");
    let routes: Vec<u8> = ctx.args.list("routes", &[0, 1, 2, 3]).iter().map(|&x| x as u8).collect();
    let maxscript = ctx.args.num("maxscript", 99) as usize;
    let starts = if N == 0 { 1 } else { N };
    let _ = items_off::<N, P>();
    let mut vc = 777u32;
    let mut all_scripts = scripts_upto((N + 1).min(maxscript));
    all_scripts.extend(nth_scripts());
    for start in 0..starts {
        for len in 0..=N {
            for a in 0..=len {
                for b in a..=len {
                    let sel = b - a;
                    for form in valid_range_forms(a, b, len) {
                        for script in all_scripts.iter().filter(|s| s.len() <= sel + 1) {
                            let end = if forget { End::Forget } else { End::Drop };
                            if !ctx.mine_next() {
                                continue;
                            }
                            let key = hash64(&format!("{}|{}|{}|{}|{:?}|{}|{:?}", N, P::NAME, start, len, form, script_str(script), end));
                            let op = Op::Drain(form, script.clone(), end);
                            for &route in &routes {
                                if N == 0 && route != 0 && route != 3 {
                                    continue;
                                }
                                if !ctx.begin_case(|| {
                                    format!(
                                        "drain N={} T={} route={} start={} len={} range={} script={} end={:?}",
                                        N, P::NAME, route_name(route), start, len, rg_str(form), script_str(script), end
                                    )
                                }) {
                                    continue;
                                }
                                if forget {
                                    // control: the same state with the drain dropped normally and the
                                    // same follow-ups, so that deviations which do not depend on the
                                    // leak are known as such (they belong to other properties)
                                    ledger_reset();
                                    let (mut hc, mut mc) = build::<N, P>(route, start, len, Some(0x5A), &mut vc);
                                    let mut envc = Env::<N, P>::new(vc);
                                    let opc = Op::Drain(form, script.clone(), End::Drop);
                                    step(&mut hc, &mut mc, &opc, &mut envc, ctx, &MonCfg::LIGHT, None, None);
                                    for f in FOLLOW.iter().skip(if lean { 4 } else { 0 }) {
                                        step(&mut hc, &mut mc, f, &mut envc, ctx, &MonCfg::LIGHT, None, None);
                                    }
                                    teardown(hc, ctx, "drain", None, false);
                                }
                                ledger_reset();
                                let (mut h, mut model) = build::<N, P>(route, start, len, Some(0x5A), &mut vc);
                                let obs = observe(h.buf_ref());
                                if obs.pairs() != model {
                                    ctx.violation("C01", format!("op=build:{}|ncap={}|wrong_contents", route_name(route), ncls(N)), format!("builder mismatch; case={}", ctx.cur_case));
                                    std::mem::forget(h);
                                    continue;
                                }
                                if let Some((s, l)) = measured_layout(h.buf_ref(), &obs) {
                                    ctx.layouts.insert(hash64(&format!("{}|{}|{}|{}", N, P::NAME, s, l)));
                                }
                                let mut env = Env::<N, P>::new(vc);
                                if forget {
                                    ctx.attribute = Some("C10");
                                }
                                step(&mut h, &mut model, &op, &mut env, ctx, &MonCfg::main(lean), None, Some(&obs));
                                ctx.distinct.insert(key);
                                if !forget {
                                    ctx.attribute = Some("C09");
                                }
                                for f in FOLLOW.iter().skip(if lean { 4 } else { 0 }) {
                                    if !lean {
                                        control_step(&h, &model, f, ctx, &MonCfg::FULL);
                                    }
                                    step(&mut h, &mut model, f, &mut env, ctx, &MonCfg::main(lean), None, None);
                                }
                                if forget && !lean {
                                    let mut rng = Rng::new(key ^ ctx.args.seed);
                                    for _ in 0..8 {
                                        let f = gen_op(&mut rng, N, model.len(), true);
                                        control_step(&h, &model, &f, ctx, &MonCfg::LIGHT);
                                        step(&mut h, &mut model, &f, &mut env, ctx, &MonCfg::LIGHT, None, None);
                                    }
                                }
                                vc = env.vc;
                                teardown(h, ctx, op.name(), None, forget);
                                ctx.attribute = None;
                            }
                        }
                    }
                }
            }
        }
    }
}
