//! Equality, ordering, hashing (C13): all pairs of capacities (N, M), all pairs of layouts, all
//! pairs of contents over a small alphabet, against the slice semantics of the element sequences.

use crate::engine::*;
use crate::tok::*;
use crate::util::{hash64, Ctx};
use circular_buffer::CircularBuffer;
use std::cmp::Ordering;
use std::collections::hash_map::DefaultHasher;
use std::hash::{Hash, Hasher};
use std::panic::{catch_unwind, AssertUnwindSafe};

/// records the exact sequence of write calls: the `Hasher` contract only promises equal output for
/// an identical call sequence, so a layout-dependent chunking is visible here even if SipHash
/// happens to hide it
#[derive(Default, PartialEq, Eq, Debug, Clone)]
pub struct CallSeqHasher {
    pub calls: Vec<(u8, Vec<u8>)>,
}
impl Hasher for CallSeqHasher {
    fn finish(&self) -> u64 {
        0
    }
    fn write(&mut self, bytes: &[u8]) {
        self.calls.push((0, bytes.to_vec()));
    }
    fn write_u8(&mut self, i: u8) {
        self.calls.push((1, vec![i]));
    }
    fn write_u32(&mut self, i: u32) {
        self.calls.push((4, i.to_le_bytes().to_vec()));
    }
    fn write_u64(&mut self, i: u64) {
        self.calls.push((8, i.to_le_bytes().to_vec()));
    }
    fn write_usize(&mut self, i: usize) {
        self.calls.push((9, i.to_le_bytes().to_vec()));
    }
}

/// all contents of length `len` over alphabet {0..alpha}
fn contents(len: usize, alpha: u32) -> Vec<Vec<u32>> {
    let mut out = vec![vec![]];
    for _ in 0..len {
        let mut next = Vec::new();
        for c in &out {
            for a in 0..alpha {
                let mut d = c.clone();
                d.push(a);
                next.push(d);
            }
        }
        out = next;
    }
    out
}

fn mk<const N: usize>(route: u8, start: usize, vals: &[u32], vc: &mut u32) -> Holder<N, Hook> {
    let (mut h, _m) = build::<N, Hook>(route, start, vals.len(), None, vc);
    for (t, v) in h.buf().iter_mut().zip(vals.iter()) {
        t.set_val(*v);
    }
    h
}

fn viol(ctx: &mut Ctx, n: usize, m: usize, what: &str, detail: String) {
    let c = ctx.cur_case.clone();
    ctx.violation("C13", format!("cmp|ncap={}|mcap={}|{}", ncls(n), ncls(m), what), format!("{}; case={}", detail, c));
}

macro_rules! arr_forms {
    ($ctx:expr, $a:expr, $bv:expr, $expect:expr, $n:expr, $($k:literal),*) => {
        match $bv.len() {
            $( $k => {
                let mut arr: [Tok; $k] = std::array::from_fn(|i| Tok::new_pinned($bv[i]));
                let r1 = *$a == arr;
                let r2 = *$a == &arr;
                let r3 = *$a == &mut arr;
                if r1 != $expect || r2 != $expect || r3 != $expect {
                    viol($ctx, $n, $k, "array_eq", format!("== [U; {}] gave {}/{}/{} expected {}", $k, r1, r2, r3, $expect));
                }
            } )*
            _ => {}
        }
    };
}

pub fn cmp_pair<const N: usize, const M: usize>(ctx: &mut Ctx) {
    ctx.panic_props = vec!["C13", "C11"];
    let alpha = if ctx.args.thorough { 3 } else { 2 };
    let starts_a = if N == 0 { 1 } else { N };
    let starts_b = if M == 0 { 1 } else { M };
    let mut vc = 31u32;
    let _ = items_off::<N, Hook>();
    let _ = items_off::<M, Hook>();
    for la in 0..=N {
        for lb in 0..=M {
            // unequal lengths are decided by the length alone: sample one content pair there
            let ca = if la == lb || la + 1 == lb || lb + 1 == la { contents(la, alpha) } else { vec![vec![0; la]] };
            let cb = if la == lb || la + 1 == lb || lb + 1 == la { contents(lb, alpha) } else { vec![vec![1; lb]] };
            for sa in 0..starts_a {
                for sb in 0..starts_b {
                    if !ctx.mine_next() {
                        continue;
                    }
                    let key = hash64(&format!("cmp|{}|{}|{}|{}|{}|{}", N, M, la, lb, sa, sb));
                    if !ctx.begin_case(|| format!("cmp N={} M={} A(start={},len={}) B(start={},len={}) all contents over {} symbols", N, M, sa, la, sb, lb, alpha)) {
                        continue;
                    }
                    ledger_reset();
                    let route_a = (sa % 3) as u8;
                    let route_b = ((sb + 1) % 3) as u8;
                    for va in &ca {
                        // the runaway guard counts creations per epoch: one epoch per left operand
                        ledger_set_epoch(ledger_epoch().wrapping_add(1));
                        let ha = mk::<N>(route_a, sa, va, &mut vc);
                        let a = ha.buf_ref();
                        // hash of A under both hashers, compared with an equal buffer in another layout
                        for vb in &cb {
                            let mut hb = mk::<M>(route_b, sb, vb, &mut vc);
                            let r = catch_unwind(AssertUnwindSafe(|| {
                                let b = hb.buf_ref();
                                let eq_seq = va == vb;
                                let ab = *a == *b;
                                let ba = *b == *a;
                                if ab != eq_seq || ba != eq_seq {
                                    return Err(("eq", format!("A{:?} == B{:?}: {} / reversed {} expected {}", va, vb, ab, ba, eq_seq)));
                                }
                                if (*a != *b) == eq_seq {
                                    return Err(("ne", format!("A{:?} != B{:?} inconsistent with ==", va, vb)));
                                }
                                let ord = va.as_slice().cmp(vb.as_slice());
                                let pc = a.partial_cmp(b);
                                if pc != Some(ord) {
                                    return Err(("partial_cmp", format!("A{:?} ? B{:?}: {:?} expected {:?}", va, vb, pc, ord)));
                                }
                                if (*a < *b) != (ord == Ordering::Less) || (*a >= *b) != (ord != Ordering::Less) {
                                    return Err(("lt_ge", format!("A{:?} < B{:?} inconsistent with {:?}", va, vb, ord)));
                                }
                                Ok(())
                            }));
                            match r {
                                Ok(Ok(())) => {}
                                Ok(Err((w, d))) => viol(ctx, N, M, w, d),
                                Err(_) => {
                                    let p = take_last_panic();
                                    viol(ctx, N, M, "panic", format!("comparison panicked: {:?} A{:?} B{:?}", p, va, vb));
                                    let cc = ctx.cur_case.clone();
                                    ctx.violation("C11", format!("cmp|ncap={}|mcap={}|unexpected_panic", ncls(N), ncls(M)), format!("comparison panicked: {:?}; case={}", p, cc));
                                }
                            }
                            // B as slices / arrays
                            {
                                let eq_seq = va == vb;
                                let mut vbt: Vec<Tok> = vb.iter().map(|&v| Tok::new_pinned(v)).collect();
                                let r1 = *a == vbt[..];
                                let r2 = *a == &vbt[..];
                                let r3 = *a == &mut vbt[..];
                                if r1 != eq_seq || r2 != eq_seq || r3 != eq_seq {
                                    viol(ctx, N, M, "slice_eq", format!("A{:?} == slice {:?}: {}/{}/{} expected {}", va, vb, r1, r2, r3, eq_seq));
                                }
                                arr_forms!(ctx, a, vb, eq_seq, N, 0, 1, 2, 3, 4, 5, 6, 7);
                                drop(vbt);
                            }
                            ctx.count("pairs_compared", 1);
                            let _ = hb.buf();
                            drop(hb);
                        }
                        // same-capacity facts about A alone
                        {
                            // Ord::cmp against every layout of an equal / different buffer of the same capacity
                            for s2 in 0..starts_a {
                                let h2 = mk::<N>(((s2 + 2) % 3) as u8, s2, va, &mut vc);
                                let b2 = h2.buf_ref();
                                if a.cmp(b2) != Ordering::Equal {
                                    viol(ctx, N, N, "cmp_equal", format!("cmp of equal buffers {:?} (starts {} / {}) = {:?}", va, sa, s2, a.cmp(b2)));
                                }
                                let mut d1 = DefaultHasher::new();
                                a.hash(&mut d1);
                                let mut d2 = DefaultHasher::new();
                                b2.hash(&mut d2);
                                if d1.finish() != d2.finish() {
                                    viol(ctx, N, N, "hash_default", format!("equal buffers {:?} (starts {} / {}) hash differently", va, sa, s2));
                                }
                                let mut c1 = CallSeqHasher::default();
                                a.hash(&mut c1);
                                let mut c2 = CallSeqHasher::default();
                                b2.hash(&mut c2);
                                if c1 != c2 {
                                    viol(ctx, N, N, "hash_call_sequence", format!("equal buffers {:?} (starts {} / {}) feed the hasher differently: {:?} vs {:?}", va, sa, s2, c1.calls, c2.calls));
                                }
                                ctx.count("hash_pairs", 1);
                                drop(h2);
                            }
                            // Debug under every flag equals Debug of the equivalent Vec
                            for spec in 0..crate::model::FMT_SPECS {
                                let got = crate::model::fmt_spec(a, spec);
                                let want = crate::model::fmt_spec(va, spec);
                                if got != want {
                                    viol(ctx, N, N, "debug", format!("spec {}: {:?} expected {:?}", spec, got, want));
                                }
                            }
                        }
                        drop(ha);
                    }
                    flush_events(ctx, "cmp", N, "cmp", None);
                    ctx.distinct.insert(key);
                    // everything must be gone: nothing leaked by comparisons
                    if ledger_live() != 0 {
                        viol(ctx, N, M, "leak", format!("{} tokens alive after comparison case", ledger_live()));
                    }
                }
            }
        }
    }
}

/// partial order with NaN, and a heterogeneous element pair
pub fn cmp_misc<const N: usize>(ctx: &mut Ctx) {
    if !ctx.mine_next() {
        return;
    }
    if !ctx.begin_case(|| format!("cmp N={} f64 with NaN and String/&str", N)) {
        return;
    }
    let vals = [0.0f64, 1.0, f64::NAN];
    let starts = if N == 0 { 1 } else { N };
    let lens: Vec<usize> = (0..=N.min(3)).collect();
    let mut seqs: Vec<Vec<f64>> = vec![];
    for &l in &lens {
        let mut cur: Vec<Vec<f64>> = vec![vec![]];
        for _ in 0..l {
            let mut nx = vec![];
            for c in &cur {
                for v in vals {
                    let mut d = c.clone();
                    d.push(v);
                    nx.push(d);
                }
            }
            cur = nx;
        }
        seqs.extend(cur);
    }
    let mkf = |start: usize, s: &[f64]| -> CircularBuffer<N, f64> {
        let mut b = CircularBuffer::<N, f64>::new();
        if N > 0 {
            for _ in 0..start % N {
                b.push_back(9.0);
                b.pop_front();
            }
        }
        for v in s {
            b.push_back(*v);
        }
        b
    };
    for sa in 0..starts {
        for sb in 0..starts {
            for x in &seqs {
                for y in &seqs {
                    let a = mkf(sa, x);
                    let b = mkf(sb, y);
                    let want = x.as_slice().partial_cmp(y.as_slice());
                    let got = a.partial_cmp(&b);
                    if got != want {
                        viol(ctx, N, N, "partial_cmp_nan", format!("{:?} ? {:?}: {:?} expected {:?}", x, y, got, want));
                    }
                    // an object compared with itself still follows the element-wise rule (NaN != NaN)
                    #[allow(clippy::eq_op)]
                    {
                        let wself = x.as_slice() == x.as_slice();
                        if (a == a) != wself || (a.partial_cmp(&a)) != x.as_slice().partial_cmp(x.as_slice()) {
                            viol(ctx, N, N, "eq_self_nan", format!("{:?} == itself: {} expected {}", x, a == a, wself));
                        }
                    }
                    let weq = x.as_slice() == y.as_slice();
                    if (a == b) != weq || (a == y[..]) != weq {
                        viol(ctx, N, N, "eq_nan", format!("{:?} == {:?}: {} expected {}", x, y, a == b, weq));
                    }
                    ctx.count("pairs_compared", 1);
                }
            }
        }
    }
    // integer elements: `Hash::hash_slice` is specialised for them (one write per slice), so a
    // layout-dependent chunking shows up only here
    {
        let mki = |start: usize, s: &[u32]| -> CircularBuffer<N, u32> {
            let mut b = CircularBuffer::<N, u32>::new();
            if N > 0 {
                for _ in 0..start % N {
                    b.push_back(9);
                    b.pop_front();
                }
            }
            for v in s {
                b.push_back(*v);
            }
            b
        };
        for len in 0..=N {
            let s: Vec<u32> = (0..len as u32).map(|x| x * 3 + 1).collect();
            let reference = mki(0, &s);
            let mut r1 = CallSeqHasher::default();
            reference.hash(&mut r1);
            let mut rd = DefaultHasher::new();
            reference.hash(&mut rd);
            for sa in 0..starts {
                let a = mki(sa, &s);
                let mut c1 = CallSeqHasher::default();
                a.hash(&mut c1);
                let mut d1 = DefaultHasher::new();
                a.hash(&mut d1);
                // the call sequence may legitimately differ from a per-element one, but it must not
                // depend on the layout: compare the concatenated byte stream and the call boundaries
                if c1 != r1 {
                    viol(ctx, N, N, "hash_call_sequence_int", format!("equal u32 buffers {:?} (front slots 0 / {}) feed the hasher differently: {:?} vs {:?}", s, sa, r1.calls, c1.calls));
                }
                if d1.finish() != rd.finish() {
                    viol(ctx, N, N, "hash_default_int", format!("equal u32 buffers {:?} (front slots 0 / {}) hash differently", s, sa));
                }
                let b8 = {
                    let mut b = CircularBuffer::<N, u8>::new();
                    if N > 0 {
                        for _ in 0..sa {
                            b.push_back(9);
                            b.pop_front();
                        }
                    }
                    for v in &s {
                        b.push_back(*v as u8);
                    }
                    b
                };
                let b8r: CircularBuffer<N, u8> = s.iter().map(|v| *v as u8).collect();
                let (mut h1, mut h2) = (CallSeqHasher::default(), CallSeqHasher::default());
                b8.hash(&mut h1);
                b8r.hash(&mut h2);
                if h1 != h2 {
                    viol(ctx, N, N, "hash_call_sequence_int", format!("equal u8 buffers {:?} (front slot {}) feed the hasher differently: {:?} vs {:?}", s, sa, h2.calls, h1.calls));
                }
                ctx.count("hash_pairs", 2);
            }
        }
    }
    // heterogeneous: String vs &str
    let words = ["a", "b", "ab"];
    for sa in 0..starts {
        for la in 0..=N.min(3) {
            let mut a = CircularBuffer::<N, String>::new();
            let mut b = CircularBuffer::<N, &str>::new();
            if N > 0 {
                for _ in 0..sa {
                    a.push_back(String::new());
                    a.pop_front();
                }
                for _ in 0..(sa + 1) % N {
                    b.push_back("");
                    b.pop_front();
                }
            }
            let mut wa = vec![];
            for i in 0..la {
                a.push_back(words[i % 3].to_string());
                b.push_back(words[i % 3]);
                wa.push(words[i % 3]);
            }
            if !(a == b) || !(a == wa[..]) {
                viol(ctx, N, N, "hetero_eq", format!("String buffer {:?} != &str buffer {:?}", a, b));
            }
            if la > 0 {
                b.pop_back();
                b.push_back("zz");
                if a == b {
                    viol(ctx, N, N, "hetero_eq", format!("String buffer {:?} == &str buffer {:?}", a, b));
                }
            }
            ctx.count("pairs_compared", 2);
        }
    }
    ctx.distinct.insert(hash64(&format!("misc|{}", N)));
}
