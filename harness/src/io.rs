//! Byte-stream I/O (C14) and the embedded-io(-async) differential (C16).
//!
//! Model: a VecDeque<u8>. Every (layout x op) and every interleaving of {write, read, fill_buf,
//! consume, flush} up to a bounded depth from every layout. With the eio / eioa features the same
//! sequences are applied in lock step to twin buffers through the other trait families and the
//! (return value, bytes delivered, contents afterwards) traces are compared.

use crate::tok::{take_last_panic, trace_num};
use crate::util::{hash64, Ctx, Rng};
use circular_buffer::CircularBuffer;
use std::collections::VecDeque;
use std::panic::{catch_unwind, AssertUnwindSafe};

#[derive(Clone, Copy, Debug, PartialEq, Eq, Hash)]
pub enum IoOp {
    Write(usize),
    Read(usize),
    FillBuf,
    Consume(usize),
    Flush,
    ReadToEnd,
    WriteAll(usize),
    /// Extend<&u8> (T: Copy): same contract as write
    ExtendRef(usize),
    /// Read::read_exact into d bytes: Ok and d bytes removed if d <= len, otherwise UnexpectedEof
    ReadExact(usize),
    /// BufRead::read_until(delimiter = the byte at this position of the contents, or an absent byte)
    ReadUntil(usize),
}

#[derive(Clone, Copy, Debug, PartialEq, Eq)]
pub enum Api {
    Std,
    #[allow(dead_code)]
    Eio,
    #[allow(dead_code)]
    Eioa,
}

#[derive(Clone, Debug, PartialEq, Eq)]
pub struct IoOut {
    pub ret: Result<usize, String>,
    pub bytes: Vec<u8>,
    pub untouched_ok: bool,
}

type BBuf<const N: usize> = CircularBuffer<N, u8>;

fn build_u8<const N: usize>(route: u8, start: usize, len: usize, next: &mut u8) -> (Box<BBuf<N>>, VecDeque<u8>) {
    let mut b: Box<BBuf<N>> = Box::new(CircularBuffer::new());
    let mut m = VecDeque::new();
    if N == 0 {
        return (b, m);
    }
    let start = start % N;
    let mut nb = |next: &mut u8| {
        *next = next.wrapping_add(1);
        *next
    };
    match route {
        0 => {
            for _ in 0..start {
                b.push_back(nb(next));
                b.pop_front();
            }
            for _ in 0..len {
                let v = nb(next);
                b.push_back(v);
                m.push_back(v);
            }
        }
        1 => {
            let s2 = (start + len) % N;
            let k = (N - s2) % N;
            for _ in 0..k {
                b.push_front(nb(next));
            }
            for _ in 0..k {
                b.pop_back();
            }
            for _ in 0..len {
                let v = nb(next);
                b.push_front(v);
                m.push_front(v);
            }
        }
        _ => {
            // through the I/O API itself: write N + start bytes, then read down to len
            let mut all = VecDeque::new();
            for _ in 0..N + start {
                let v = nb(next);
                std::io::Write::write(&mut *b, &[v]).unwrap();
                all.push_back(v);
                if all.len() > N {
                    all.pop_front();
                }
            }
            b.truncate_back(len);
            all.truncate(len);
            m = all;
        }
    }
    (b, m)
}

/// front slot measured from the address of the front element
fn front_slot<const N: usize>(b: &BBuf<N>) -> Option<usize> {
    let f = b.front()? as *const u8 as usize;
    // calibrate: slot 0 of a full scratch buffer
    let mut s: Box<BBuf<N>> = Box::new(CircularBuffer::new());
    for i in 0..N {
        s.push_back(i as u8);
    }
    let base_s = &*s as *const BBuf<N> as usize;
    let off = s.iter().map(|r| r as *const u8 as usize).min()? - base_s;
    let base = b as *const BBuf<N> as usize;
    f.checked_sub(base + off).filter(|x| *x < N)
}

fn noop_block<F: std::future::Future>(f: F) -> Result<F::Output, String> {
    let mut f = std::pin::pin!(f);
    let w = std::task::Waker::noop();
    let mut cx = std::task::Context::from_waker(w);
    match f.as_mut().poll(&mut cx) {
        std::task::Poll::Ready(v) => Ok(v),
        std::task::Poll::Pending => Err("Pending".to_string()),
    }
}
#[allow(dead_code)]
fn _use(_: fn()) {
    let _ = noop_block(async {});
}

fn apply<const N: usize>(b: &mut BBuf<N>, op: IoOp, api: Api, payload: &[u8]) -> IoOut {
    const SENT: u8 = 0xEE;
    match op {
        IoOp::Write(_) | IoOp::WriteAll(_) => {
            let all = matches!(op, IoOp::WriteAll(_));
            let ret: Result<usize, String> = match api {
                Api::Std => {
                    crate::alloc::scope_resume();
                    let r = if all {
                        std::io::Write::write_all(b, payload).map(|_| payload.len()).map_err(|e| e.to_string())
                    } else {
                        std::io::Write::write(b, payload).map_err(|e| e.to_string())
                    };
                    crate::alloc::scope_pause();
                    r
                }
                #[cfg(feature = "eio")]
                Api::Eio => {
                    if all {
                        embedded_io::Write::write_all(b, payload).map(|_| payload.len()).map_err(|e| format!("{:?}", e))
                    } else {
                        embedded_io::Write::write(b, payload).map_err(|e| format!("{:?}", e))
                    }
                }
                #[cfg(feature = "eioa")]
                Api::Eioa => {
                    if all {
                        noop_block(embedded_io_async::Write::write_all(b, payload))
                            .and_then(|r| r.map(|_| payload.len()).map_err(|e| format!("{:?}", e)))
                    } else {
                        noop_block(embedded_io_async::Write::write(b, payload)).and_then(|r| r.map_err(|e| format!("{:?}", e)))
                    }
                }
                #[allow(unreachable_patterns)]
                _ => Err("api not built".into()),
            };
            IoOut { ret, bytes: vec![], untouched_ok: true }
        }
        IoOp::ExtendRef(_) => {
            crate::alloc::scope_resume();
            b.extend(payload.iter());
            crate::alloc::scope_pause();
            IoOut { ret: Ok(payload.len()), bytes: vec![], untouched_ok: true }
        }
        IoOp::Read(d) => {
            let mut dst = vec![SENT; d + 3];
            let ret: Result<usize, String> = match api {
                Api::Std => {
                    crate::alloc::scope_resume();
                    let r = std::io::Read::read(b, &mut dst[..d]);
                    crate::alloc::scope_pause();
                    r.map_err(|e| e.to_string())
                }
                #[cfg(feature = "eio")]
                Api::Eio => embedded_io::Read::read(b, &mut dst[..d]).map_err(|e| format!("{:?}", e)),
                #[cfg(feature = "eioa")]
                Api::Eioa => noop_block(embedded_io_async::Read::read(b, &mut dst[..d])).and_then(|r| r.map_err(|e| format!("{:?}", e))),
                #[allow(unreachable_patterns)]
                _ => Err("api not built".into()),
            };
            let c = *ret.as_ref().unwrap_or(&0);
            let untouched_ok = c <= d && dst[c.min(d + 3)..].iter().all(|&x| x == SENT);
            dst.truncate(c.min(d));
            IoOut { ret, bytes: dst, untouched_ok }
        }
        IoOp::ReadExact(d) => {
            let mut dst = vec![SENT; d];
            let ret: Result<usize, String> = match api {
                Api::Std => {
                    crate::alloc::scope_resume();
                    let r = std::io::Read::read_exact(b, &mut dst[..]);
                    crate::alloc::scope_pause();
                    r.map(|_| d).map_err(|e| format!("{:?}", e.kind()))
                }
                #[cfg(feature = "eio")]
                Api::Eio => embedded_io::Read::read_exact(b, &mut dst[..]).map(|_| d).map_err(|e| match e {
                    embedded_io::ReadExactError::UnexpectedEof => "UnexpectedEof".to_string(),
                    embedded_io::ReadExactError::Other(o) => format!("{:?}", o),
                }),
                #[cfg(feature = "eioa")]
                Api::Eioa => noop_block(embedded_io_async::Read::read_exact(b, &mut dst[..])).and_then(|r| {
                    r.map(|_| d).map_err(|e| match e {
                        embedded_io_async::ReadExactError::UnexpectedEof => "UnexpectedEof".to_string(),
                        embedded_io_async::ReadExactError::Other(o) => format!("{:?}", o),
                    })
                }),
                #[allow(unreachable_patterns)]
                _ => Err("api not built".into()),
            };
            if ret.is_err() {
                dst.clear();
            }
            IoOut { ret, bytes: dst, untouched_ok: true }
        }
        IoOp::ReadUntil(_) => {
            let delim = payload.first().copied().unwrap_or(0);
            let mut v: Vec<u8> = vec![];
            let ret: Result<usize, String> = match api {
                Api::Std => std::io::BufRead::read_until(b, delim, &mut v).map_err(|e| e.to_string()),
                _ => {
                    // the same algorithm through the other trait family's fill_buf / consume
                    let mut total = 0usize;
                    loop {
                        let chunk: Result<Vec<u8>, String> = match api {
                            #[cfg(feature = "eio")]
                            Api::Eio => embedded_io::BufRead::fill_buf(b).map(|s| s.to_vec()).map_err(|e| format!("{:?}", e)),
                            #[cfg(feature = "eioa")]
                            Api::Eioa => noop_block(embedded_io_async::BufRead::fill_buf(b)).and_then(|r| r.map(|s| s.to_vec()).map_err(|e| format!("{:?}", e))),
                            _ => Err("api not built".into()),
                        };
                        let chunk = match chunk {
                            Ok(c) => c,
                            Err(e) => break Err(e),
                        };
                        let (done, used) = match chunk.iter().position(|x| *x == delim) {
                            Some(i) => (true, i + 1),
                            None => (false, chunk.len()),
                        };
                        v.extend_from_slice(&chunk[..used]);
                        match api {
                            #[cfg(feature = "eio")]
                            Api::Eio => embedded_io::BufRead::consume(b, used),
                            #[cfg(feature = "eioa")]
                            Api::Eioa => embedded_io_async::BufRead::consume(b, used),
                            _ => {}
                        }
                        total += used;
                        if done || used == 0 {
                            break Ok(total);
                        }
                    }
                }
            };
            IoOut { ret, bytes: v, untouched_ok: true }
        }
        IoOp::ReadToEnd => {
            let mut v = vec![];
            let ret = match api {
                Api::Std => std::io::Read::read_to_end(b, &mut v).map_err(|e| e.to_string()),
                _ => {
                    // no read_to_end in embedded-io: read in chunks of 2 until 0
                    let mut total = 0;
                    loop {
                        let mut d = [0u8; 2];
                        let r: Result<usize, String> = match api {
                            #[cfg(feature = "eio")]
                            Api::Eio => embedded_io::Read::read(b, &mut d).map_err(|e| format!("{:?}", e)),
                            #[cfg(feature = "eioa")]
                            Api::Eioa => noop_block(embedded_io_async::Read::read(b, &mut d)).and_then(|r| r.map_err(|e| format!("{:?}", e))),
                            _ => Err("api not built".into()),
                        };
                        match r {
                            Ok(0) => break Ok(total),
                            Ok(k) => {
                                v.extend_from_slice(&d[..k.min(2)]);
                                total += k;
                            }
                            Err(e) => break Err(e),
                        }
                    }
                }
            };
            IoOut { ret, bytes: v, untouched_ok: true }
        }
        IoOp::FillBuf => {
            let r: Result<Vec<u8>, String> = match api {
                Api::Std => std::io::BufRead::fill_buf(b).map(|s| s.to_vec()).map_err(|e| e.to_string()),
                #[cfg(feature = "eio")]
                Api::Eio => embedded_io::BufRead::fill_buf(b).map(|s| s.to_vec()).map_err(|e| format!("{:?}", e)),
                #[cfg(feature = "eioa")]
                Api::Eioa => noop_block(embedded_io_async::BufRead::fill_buf(b)).and_then(|r| r.map(|s| s.to_vec()).map_err(|e| format!("{:?}", e))),
                #[allow(unreachable_patterns)]
                _ => Err("api not built".into()),
            };
            match r {
                Ok(v) => IoOut { ret: Ok(v.len()), bytes: v, untouched_ok: true },
                Err(e) => IoOut { ret: Err(e), bytes: vec![], untouched_ok: true },
            }
        }
        IoOp::Consume(k) => {
            match api {
                Api::Std => {
                    crate::alloc::scope_resume();
                    std::io::BufRead::consume(b, k);
                    crate::alloc::scope_pause();
                }
                #[cfg(feature = "eio")]
                Api::Eio => embedded_io::BufRead::consume(b, k),
                #[cfg(feature = "eioa")]
                Api::Eioa => embedded_io_async::BufRead::consume(b, k),
                #[allow(unreachable_patterns)]
                _ => {}
            }
            IoOut { ret: Ok(0), bytes: vec![], untouched_ok: true }
        }
        IoOp::Flush => {
            let ret: Result<usize, String> = match api {
                Api::Std => {
                    crate::alloc::scope_resume();
                    let r = std::io::Write::flush(b);
                    crate::alloc::scope_pause();
                    r.map(|_| 0).map_err(|e| e.to_string())
                }
                #[cfg(feature = "eio")]
                Api::Eio => embedded_io::Write::flush(b).map(|_| 0).map_err(|e| format!("{:?}", e)),
                #[cfg(feature = "eioa")]
                Api::Eioa => noop_block(embedded_io_async::Write::flush(b)).and_then(|r| r.map(|_| 0).map_err(|e| format!("{:?}", e))),
                #[allow(unreachable_patterns)]
                _ => Err("api not built".into()),
            };
            IoOut { ret, bytes: vec![], untouched_ok: true }
        }
    }
}

fn contents<const N: usize>(b: &BBuf<N>) -> Vec<u8> {
    let (x, y) = b.as_slices();
    let mut v = x.to_vec();
    v.extend_from_slice(y);
    v
}

fn viol14(ctx: &mut Ctx, n: usize, op: IoOp, what: &str, detail: String) {
    let c = ctx.cur_case.clone();
    let name = format!("{:?}", op);
    let name = name.split('(').next().unwrap().to_string();
    ctx.violation("C14", format!("io={}|ncap={}|{}", name, crate::engine::ncls(n), what), format!("{}; case={}", detail, c));
    if what == "panic" {
        ctx.violation("C11", format!("io={}|ncap={}|unexpected_panic", name, crate::engine::ncls(n)), format!("{}; case={}", detail, c));
    }
}

/// apply one op through std::io, judge against the model, update the model
fn step_std<const N: usize>(b: &mut BBuf<N>, m: &mut VecDeque<u8>, op: IoOp, next: &mut u8, ctx: &mut Ctx) -> (IoOut, Vec<u8>) {
    let payload: Vec<u8> = match op {
        IoOp::Write(k) | IoOp::WriteAll(k) | IoOp::ExtendRef(k) => (0..k)
            .map(|_| {
                *next = next.wrapping_add(1);
                *next
            })
            .collect(),
        IoOp::ReadUntil(pos) => vec![m.get(pos).copied().unwrap_or(0)],
        _ => vec![],
    };
    crate::alloc::scope_begin();
    crate::alloc::scope_pause();
    let r = catch_unwind(AssertUnwindSafe(|| apply(b, op, Api::Std, &payload)));
    let counts = crate::alloc::scope_end();
    if r.is_ok() && (counts.allocs | counts.deallocs | counts.reallocs) != 0 {
        let c = ctx.cur_case.clone();
        let name = format!("{:?}", op);
        let name = name.split('(').next().unwrap().to_string();
        ctx.violation("C17", format!("io={}|ncap={}|allocates", name, crate::engine::ncls(N)), format!("{:?}: {:?}; case={}", op, counts, c));
    }
    ctx.count("alloc_scopes_checked", 1);
    let out = match r {
        Ok(o) => o,
        Err(_) => {
            let p = take_last_panic();
            viol14(ctx, N, op, "panic", format!("{:?} panicked: {:?}", op, p));
            *m = contents(b).into();
            return (IoOut { ret: Err("panic".into()), bytes: vec![], untouched_ok: true }, payload);
        }
    };
    ctx.count("io_ops", 1);
    trace_num(0x10, *out.ret.as_ref().unwrap_or(&usize::MAX) as u64);
    trace_num(0x11, hash64(&format!("{:?}", out.bytes)));
    if let Err(e) = &out.ret {
        if !matches!(op, IoOp::ReadExact(d) if d > m.len()) {
            viol14(ctx, N, op, "error", format!("{:?} returned Err({})", op, e));
        }
    }
    let before: Vec<u8> = m.iter().copied().collect();
    match op {
        IoOp::Write(k) | IoOp::WriteAll(k) | IoOp::ExtendRef(k) => {
            if out.ret != Ok(k) {
                viol14(ctx, N, op, "wrong_count", format!("write of {} bytes returned {:?}", k, out.ret));
            }
            for &v in &payload {
                m.push_back(v);
                if m.len() > N {
                    m.pop_front();
                }
            }
            if N == 0 {
                m.clear();
            }
        }
        IoOp::Read(d) => {
            let want = d.min(m.len());
            let wb: Vec<u8> = m.iter().take(want).copied().collect();
            if out.ret != Ok(want) || out.bytes != wb {
                viol14(ctx, N, op, "wrong_read", format!("read into {} bytes from {:?}: {:?} bytes {:?}, expected {} bytes {:?}", d, before, out.ret, out.bytes, want, wb));
            }
            if !out.untouched_ok {
                viol14(ctx, N, op, "wrote_past_count", format!("read into {} bytes modified the destination beyond the returned count", d));
            }
            for _ in 0..want {
                m.pop_front();
            }
        }
        IoOp::ReadExact(d) => {
            if d <= m.len() {
                let wb: Vec<u8> = m.iter().take(d).copied().collect();
                if out.ret != Ok(d) || out.bytes != wb {
                    viol14(ctx, N, op, "wrong_read", format!("read_exact of {} bytes from {:?}: {:?} bytes {:?}, expected {:?}", d, before, out.ret, out.bytes, wb));
                }
                for _ in 0..d {
                    m.pop_front();
                }
            } else {
                // std documents: on UnexpectedEof the contents of the destination and how much was
                // consumed are unspecified, so only the error kind is judged; resynchronise
                if out.ret != Err("UnexpectedEof".to_string()) {
                    viol14(ctx, N, op, "wrong_read", format!("read_exact of {} bytes from {} buffered returned {:?}", d, before.len(), out.ret));
                }
                // what is left is unspecified: start over from an empty buffer (twins do the same)
                b.clear();
                m.clear();
            }
        }
        IoOp::ReadUntil(_) => {
            let delim = payload[0];
            let want: Vec<u8> = match before.iter().position(|x| *x == delim) {
                Some(i) => before[..=i].to_vec(),
                None => before.clone(),
            };
            if out.ret != Ok(want.len()) || out.bytes != want {
                viol14(ctx, N, op, "wrong_read", format!("read_until({}) from {:?}: {:?} {:?}, expected {:?}", delim, before, out.ret, out.bytes, want));
            }
            for _ in 0..want.len() {
                m.pop_front();
            }
        }
        IoOp::ReadToEnd => {
            if out.ret != Ok(before.len()) || out.bytes != before {
                viol14(ctx, N, op, "wrong_read", format!("read_to_end from {:?}: {:?} {:?}", before, out.ret, out.bytes));
            }
            m.clear();
        }
        IoOp::FillBuf => {
            let ok = before.starts_with(&out.bytes) && (before.is_empty() == out.bytes.is_empty());
            if !ok {
                viol14(ctx, N, op, "wrong_fill_buf", format!("fill_buf on {:?} returned {:?}", before, out.bytes));
            }
        }
        IoOp::Consume(k) => {
            for _ in 0..k.min(m.len()) {
                m.pop_front();
            }
        }
        IoOp::Flush => {}
    }
    let after = contents(b);
    let want: Vec<u8> = m.iter().copied().collect();
    if after != want || b.len() != want.len() {
        viol14(ctx, N, op, "wrong_contents", format!("{:?} on {:?}: contents {:?} (len {}) expected {:?}", op, before, after, b.len(), want));
        *m = after.into();
    }
    (out, payload)
}

fn ops_for(n: usize, thorough: bool) -> Vec<IoOp> {
    let mut v = vec![IoOp::FillBuf, IoOp::Flush, IoOp::ReadToEnd];
    for k in 0..=2 * n + 1 {
        v.push(IoOp::Write(k));
    }
    v.push(IoOp::WriteAll(n + 1));
    v.push(IoOp::ExtendRef(n / 2 + 1));
    v.push(IoOp::ExtendRef(2 * n + 1));
    v.push(IoOp::ReadExact(1));
    v.push(IoOp::ReadExact(n));
    v.push(IoOp::ReadExact(n + 1));
    v.push(IoOp::ReadUntil(0));
    v.push(IoOp::ReadUntil(n / 2 + 1));
    v.push(IoOp::ReadUntil(usize::MAX));
    for d in 0..=n + 2 {
        v.push(IoOp::Read(d));
    }
    for k in 0..=n + 2 {
        v.push(IoOp::Consume(k));
    }
    v.push(IoOp::Consume(usize::MAX));
    if !thorough && n > 4 {
        // thin the middle of the ranges for the deeper interleavings
        v.retain(|o| match o {
            IoOp::Write(k) => *k <= 2 || k.saturating_add(2) >= n && *k <= n + 1 || *k >= 2 * n,
            IoOp::Read(k) | IoOp::Consume(k) => *k <= 2 || k.saturating_add(1) >= n,
            _ => true,
        });
    }
    v
}

/// the twin APIs compiled into this build
fn twin_apis() -> Vec<Api> {
    #[allow(unused_mut)]
    let mut v = vec![];
    #[cfg(feature = "eio")]
    v.push(Api::Eio);
    #[cfg(feature = "eioa")]
    v.push(Api::Eioa);
    v
}

pub fn io<const N: usize>(ctx: &mut Ctx) {
    ctx.panic_props = vec!["C14", "C11"];
    let depth = ctx.args.num("depth", 3) as usize;
    let thorough = ctx.args.thorough;
    let starts = if N == 0 { 1 } else { N };
    let ops = ops_for(N, thorough);
    let twins = twin_apis();
    let mut next: u8 = 0;
    for route in 0..3u8 {
        for start in 0..starts {
            for len in 0..=N {
                if N == 0 && route != 0 {
                    continue;
                }
                // enumerate sequences of length `depth` (first op index shards the space)
                let total = ops.len().pow(depth as u32);
                for first in 0..ops.len() {
                    if !ctx.mine_next() {
                        continue;
                    }
                    let key = hash64(&format!("io|{}|{}|{}|{}|{:?}", N, route, start, len, ops[first]));
                    let per_first = total / ops.len();
                    for rest in 0..per_first {
                        let mut seq = vec![ops[first]];
                        let mut r = rest;
                        for _ in 1..depth {
                            seq.push(ops[r % ops.len()]);
                            r /= ops.len();
                        }
                        if !ctx.begin_case(|| format!("io N={} route={} start={} len={} seq={:?}", N, route, start, len, seq)) {
                            continue;
                        }
                        next = (ctx.case_idx as u8).wrapping_mul(31);
                        let n0 = next;
                        let (mut b, mut m) = build_u8::<N>(route, start, len, &mut next);
                        if contents(&b) != m.iter().copied().collect::<Vec<u8>>() {
                            viol14(ctx, N, seq[0], "builder_mismatch", "state builder".into());
                            continue;
                        }
                        if let Some(s) = front_slot(&b) {
                            ctx.layouts.insert(hash64(&format!("io|{}|{}|{}", N, s, len)));
                        }
                        // twins built by the identical history
                        let mut twin_bufs: Vec<(Api, Box<BBuf<N>>)> = twins
                            .iter()
                            .map(|&a| {
                                let mut nx = n0;
                                (a, build_u8::<N>(route, start, len, &mut nx).0)
                            })
                            .collect();
                        for (i, &op) in seq.iter().enumerate() {
                            let (out, payload) = step_std(&mut b, &mut m, op, &mut next, ctx);
                            for (api, tb) in twin_bufs.iter_mut() {
                                let r = catch_unwind(AssertUnwindSafe(|| apply(tb, op, *api, &payload)));
                                ctx.count("twin_ops", 1);
                                match r {
                                    Err(_) => {
                                        let p = take_last_panic();
                                        let c = ctx.cur_case.clone();
                                        ctx.violation("C16", format!("io={:?}|api={:?}|ncap={}|panic", std::mem::discriminant(&op), api, crate::engine::ncls(N)), format!("{:?} via {:?} panicked {:?}; case={}", op, api, p, c));
                                    }
                                    Ok(o2) => {
                                        let eof = matches!(op, IoOp::ReadExact(_)) && out.ret == Err("UnexpectedEof".to_string());
                                        if eof {
                                            tb.clear();
                                        }
                                        let same = o2 == out && contents(tb) == contents(&b);
                                        if !same {
                                            let c = ctx.cur_case.clone();
                                            let name = format!("{:?}", op);
                                            let name = name.split('(').next().unwrap().to_string();
                                            ctx.violation(
                                                "C16",
                                                format!("io={}|api={:?}|ncap={}|differs_from_std", name, api, crate::engine::ncls(N)),
                                                format!("step {} {:?}: std -> {:?} contents {:?}; {:?} -> {:?} contents {:?}; case={}", i, op, out, contents(&b), api, o2, contents(tb), c),
                                            );
                                        }
                                        if let (Err(e), false) = (&o2.ret, eof) {
                                            let c = ctx.cur_case.clone();
                                            ctx.violation("C16", format!("io={:?}|api={:?}|ncap={}|error", std::mem::discriminant(&op), api, crate::engine::ncls(N)), format!("{:?} via {:?}: Err({}); case={}", op, api, e, c));
                                        }
                                    }
                                }
                            }
                        }
                        ctx.distinct.insert(hash64(&format!("{}|{}", key, rest)));
                    }
                }
            }
        }
    }
}

/// random deeper sequences at larger capacities
pub fn io_random<const N: usize>(ctx: &mut Ctx) {
    let total = ctx.args.num("ops", 20000);
    ctx.can_skip = false;
    let mut rng = Rng::new(ctx.args.seed ^ hash64(&format!("io_random|{}|{}", N, ctx.args.shard.0)));
    let twins = twin_apis();
    let mut done = 0;
    let mut next = 0u8;
    while done < total {
        let route = rng.below(3) as u8;
        let start = rng.below(N.max(1) as u64) as usize;
        let len = rng.below(N as u64 + 1) as usize;
        let hist = 20 + rng.below(200);
        let desc = format!("io_random N={} seed={} shard={} history@{} route={} start={} len={}", N, ctx.args.seed, ctx.args.shard.0, done, route, start, len);
        let _ = ctx.begin_case(|| desc);
        let n0 = next;
        let (mut b, mut m) = build_u8::<N>(route, start, len, &mut next);
        let mut twin_bufs: Vec<(Api, Box<BBuf<N>>)> = twins
            .iter()
            .map(|&a| {
                let mut nx = n0;
                (a, build_u8::<N>(route, start, len, &mut nx).0)
            })
            .collect();
        for _ in 0..hist {
            let cur = m.len();
            let free = N - cur;
            let pickn = |rng: &mut Rng, around: usize| -> usize {
                match rng.below(6) {
                    0 => 0,
                    1 => around,
                    2 => around + 1,
                    3 => around.saturating_sub(1),
                    4 => rng.below(2 * N as u64 + 2) as usize,
                    _ => rng.below(around as u64 + 2) as usize,
                }
            };
            let op = match rng.below(10) {
                0..=3 => IoOp::Write(if rng.chance(1, 2) { pickn(&mut rng, free) } else { pickn(&mut rng, N) }.min(3 * N + 2)),
                4..=5 => IoOp::Read(pickn(&mut rng, cur)),
                6 => IoOp::FillBuf,
                7 => IoOp::Consume(if rng.chance(1, 10) { usize::MAX } else { pickn(&mut rng, cur) }),
                8 => *rng.pick(&[IoOp::Flush, IoOp::ReadToEnd, IoOp::WriteAll(N / 2 + 1), IoOp::ReadExact(cur), IoOp::ReadExact(cur + 1), IoOp::ReadExact(cur / 2), IoOp::ExtendRef(N / 3 + 1), IoOp::ReadUntil(cur / 2), IoOp::ReadUntil(cur.saturating_sub(1)), IoOp::ReadUntil(usize::MAX)]),
                _ => IoOp::Read(pickn(&mut rng, N)),
            };
            if let Some(s) = front_slot(&b) {
                ctx.layouts.insert(hash64(&format!("io|{}|{}|{}", N, s * 64 / N.max(1), cur * 64 / N.max(1))));
            }
            let (out, payload) = step_std(&mut b, &mut m, op, &mut next, ctx);
            let name = format!("{:?}", op);
            let name = name.split('(').next().unwrap().to_string();
            ctx.distinct.insert(hash64(&format!("ior|{}|{}|{}|{}", N, name, cur == 0, cur == N)));
            for (api, tb) in twin_bufs.iter_mut() {
                let r = catch_unwind(AssertUnwindSafe(|| apply(tb, op, *api, &payload)));
                ctx.count("twin_ops", 1);
                let eof = matches!(op, IoOp::ReadExact(_)) && out.ret == Err("UnexpectedEof".to_string());
                if eof {
                    tb.clear();
                }
                let ok = match &r {
                    Ok(o2) => *o2 == out && contents(tb) == contents(&b) && (o2.ret.is_ok() || eof),
                    Err(_) => false,
                };
                if !ok {
                    let _ = take_last_panic();
                    let c = ctx.cur_case.clone();
                    ctx.violation("C16", format!("io={}|api={:?}|ncap={}|differs_from_std", name, api, crate::engine::ncls(N)), format!("{:?}: std -> {:?}; {:?} -> {:?}; case={}", op, out, api, r.ok(), c));
                }
            }
        }
        done += hist;
        ctx.evaluations += hist - 1;
    }
}
