//! Single-operation sweep: every layout x every operation x boundary arguments, all monitors on.
//! Serves C01, C02, C03, C07, C11, C17, C20 (violations are tagged with the property they refute).

use crate::engine::*;
use crate::ops::*;
use crate::tok::*;
use crate::util::{hash64, Ctx};

pub fn op_list(n: usize, len: usize, thorough: bool) -> Vec<Op> {
    let mut v = vec![
        Op::PushBack,
        Op::PushFront,
        Op::TryPushBack,
        Op::TryPushFront,
        Op::PopBack,
        Op::PopFront,
        Op::Clear,
        Op::Fill,
        Op::FillWith,
        Op::FillSpare,
        Op::FillSpareWith,
        Op::MakeContiguous(false),
        Op::MakeContiguous(true),
        Op::Quad,
        Op::Front,
        Op::Back,
        Op::IterCollect(false),
        Op::IterCollect(true),
        Op::IterMutCollect(false),
        Op::IterMutCollect(true),
        Op::AsSlices,
        Op::AsMutSlices,
        Op::ToVec,
        Op::CloneBuf,
        Op::HashSelf,
        Op::EqSelf,
        Op::CmpSelf,
    ];
    for s in 0..crate::model::FMT_SPECS {
        v.push(Op::DebugFmt(s));
    }
    let bargs = boundary_args(len, n);
    for &x in &bargs {
        v.push(Op::Remove(x));
        v.push(Op::SwapRemoveBack(x));
        v.push(Op::SwapRemoveFront(x));
        v.push(Op::TruncateBack(x));
        v.push(Op::TruncateFront(x));
        v.push(Op::Get(x));
        v.push(Op::NthFront(x));
        v.push(Op::NthBack(x));
        v.push(Op::Index(x));
        for view in MUT_VIEWS {
            if matches!(view, MutView::FrontMut | MutView::BackMut) && x != 0 {
                continue;
            }
            v.push(Op::Write(view, x, WMode::Peek));
            v.push(Op::Write(view, x, WMode::SetVal(9)));
            v.push(Op::Write(view, x, WMode::Replace));
        }
    }
    // swap: all in-range pairs for small len, plus boundary pairs
    let mut sw: Vec<usize> = vec![0, len.wrapping_sub(1), len, len / 2, usize::MAX];
    if len <= 5 || thorough {
        sw.extend(0..len.min(9));
    }
    sw.sort_unstable();
    sw.dedup();
    for &i in &sw {
        for &j in &sw {
            v.push(Op::Swap(i, j));
        }
    }
    for k in 0..=2 * n + 1 {
        v.push(Op::Extend(k));
        v.push(Op::ExtendHinted(k, 1 + (k % 3) as u8));
        v.push(Op::ExtendHinted(k, 4));
        if k == n + 1 || k == 2 * n + 1 || k == 1 {
            for h in 1..=3u8 {
                v.push(Op::ExtendHinted(k, h));
            }
        }
        v.push(Op::ExtendFromSlice(k));
    }
    for r in boundary_ranges(len, n, false) {
        v.push(Op::RangeCollect(r));
        v.push(Op::RangeMutCollect(r));
        v.push(Op::Drain(r, vec![], End::Drop));
        v.push(Op::Drain(r, vec![Step::F], End::Drop));
    }
    for a in 0..=len {
        for b in a..=len {
            let r = (B::I(a), B::E(b));
            v.push(Op::Drain(r, vec![Step::F, Step::B], End::Drop));
            v.push(Op::Drain(r, vec![Step::B], End::Forget));
        }
    }
    // clone_from: every source layout (bounded for larger capacities)
    if n > 0 {
        let step = if n <= 4 || thorough && n <= 6 { 1 } else { (n / 3).max(1) };
        let mut s = 0;
        while s < n {
            for l in 0..=n {
                if n > 6 && !(l == 0 || l == n || l == n / 2 || l == 1 || l + 1 == n) {
                    continue;
                }
                v.push(Op::CloneFrom(SrcDesc { route: 0, start: s, len: l }));
            }
            s += step;
        }
    } else {
        v.push(Op::CloneFrom(SrcDesc { route: 0, start: 0, len: 0 }));
    }
    v
}

const FOLLOWUPS: [Op; 6] =
    [Op::PushBack, Op::PushFront, Op::ExtendFromSlice(2), Op::PopFront, Op::TruncateBack(1), Op::Clear];

pub fn sweep<const N: usize, P: Pad>(ctx: &mut Ctx) {
    let thorough = ctx.args.thorough;
    let lean = ctx.args.flag("lean");
    let mut lean_ctr = 0u64;
    let opfilter: Option<Vec<String>> = ctx.args.get("opfilter").map(|s| s.split(',').map(|x| x.to_string()).collect());
    let noforget = ctx.args.flag("noforget");
    let routes: Vec<u8> = ctx.args.list("routes", &[0, 1, 2, 3, 4, 5, 6]).iter().map(|&x| x as u8).collect();
    let starts = if N == 0 { 1 } else { N };
    // calibrate geometry before the first case so that ids are not disturbed inside cases
    let _ = items_off::<N, P>();
    let mut vc: u32 = 12345;
    for start in 0..starts {
        for len in 0..=N {
            let ops = op_list(N, len, thorough);
            for op in ops.iter() {
                if let Some(f) = &opfilter {
                    if !f.iter().any(|x| op.name().contains(x.as_str())) {
                        continue;
                    }
                }
                if noforget && matches!(op, Op::Drain(_, _, End::Forget)) {
                    continue;
                }
                lean_ctr += 1;
                if lean {
                    // the sanitizer is the oracle: thin out the documented-panic cases (unwinding is very
                    // slow there)
                    let invalid = match op {
                        Op::RangeCollect(r) | Op::RangeMutCollect(r) | Op::Drain(r, _, _) => crate::model::resolve_range(*r, len).is_none(),
                        Op::Index(i) | Op::Write(MutView::IndexMut, i, _) => *i >= len,
                        Op::Swap(i, j) => *i >= len || *j >= len,
                        _ => false,
                    };
                    if invalid && lean_ctr % 16 != 0 {
                        continue;
                    }
                }
                if !ctx.mine_next() {
                    continue;
                }
                let opd = format!("{:?}", op);
                let key = hash64(&format!("{}|{}|{}|{}|{}", N, P::NAME, start, len, opd));
                for &route in &routes {
                    if N == 0 && !(route == 0 || route == 3) {
                        continue;
                    }
                    if !ctx.begin_case(|| {
                        format!("sweep N={} T={} route={} start={} len={} op={}", N, P::NAME, route_name(route), start, len, opd)
                    }) {
                        continue;
                    }
                    ledger_reset();
                    let paint = match (start + len) % 3 {
                        0 => Some(0x00),
                        1 => Some(0xFF),
                        _ => Some(0x5A),
                    };
                    let (mut h, mut model) = build::<N, P>(route, start, len, paint, &mut vc);
                    let obs = observe(h.buf_ref());
                    if obs.pairs() != model {
                        ctx.violation(
                            "C01",
                            format!("op=build:{}|ncap={}|wrong_contents", route_name(route), ncls(N)),
                            format!("state builder: expected {:?} observed {:?}; case={}", model, obs.pairs(), ctx.cur_case),
                        );
                        flush_events(ctx, "build", N, "build", None);
                        std::mem::forget(h);
                        continue;
                    }
                    flush_events(ctx, "build", N, "build", None);
                    if let Some((s, l)) = measured_layout(h.buf_ref(), &obs) {
                        ctx.layouts.insert(hash64(&format!("{}|{}|{}|{}", N, P::NAME, s, l)));
                    } else {
                        ctx.layouts.insert(hash64(&format!("{}|{}|e{}", N, P::NAME, start)));
                    }
                    let mut env = Env::<N, P>::new(vc);
                    let out = step(&mut h, &mut model, op, &mut env, ctx, &MonCfg::main(lean), None, Some(&obs));
                    if op.is_mutator() || out.panicked {
                        ctx.distinct.insert(key);
                    }
                    if op.is_mutator() {
                        for f in FOLLOWUPS.iter().take(if lean { 3 } else { 6 }) {
                            step(&mut h, &mut model, f, &mut env, ctx, &MonCfg::LIGHT, None, None);
                        }
                    }
                    vc = env.vc;
                    teardown(h, ctx, op.name(), None, matches!(op, Op::Drain(_, _, End::Forget)));
                }
            }
        }
    }
}
