import json,sys
for line in sys.stdin:
    if not line.startswith('RESULT '): 
        continue
    d=json.loads(line[7:])
    for v in d['violations']: print(v['prop'],v['sig'],v['count'],'::',v['detail'][:400],'|| replay:',v['case'])
    print('evals',d['evaluations'],'distinct',d['distinct'],'layouts',d['layouts'],d['counters'], d['notes'])
